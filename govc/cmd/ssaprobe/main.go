package main

import (
	"os"
	"sort"
	"strings"

	"golang.org/x/tools/go/packages"
	"golang.org/x/tools/go/ssa"
	"golang.org/x/tools/go/ssa/ssautil"
)

func main() {
	cfg := &packages.Config{Mode: packages.LoadAllSyntax, Dir: "/repo", BuildFlags: []string{"-tags=verif"},
		Env: append(os.Environ(), "GOFLAGS=-mod=mod", "GOPROXY=off", "GOSUMDB=off", "GOTOOLCHAIN=local")}
	pkgs, err := packages.Load(cfg, "./...")
	if err != nil {
		panic(err)
	}
	prog, _ := ssautil.AllPackages(pkgs, ssa.InstantiateGenerics|ssa.GlobalDebug)
	prog.Build()
	fns := ssautil.AllFunctions(prog)
	var list []*ssa.Function
	for f := range fns {
		list = append(list, f)
	}
	sort.Slice(list, func(i, j int) bool { return list[i].String() < list[j].String() })
	for _, f := range list {
		for _, a := range os.Args[1:] {
			if strings.Contains(f.String(), a) {
				f.WriteTo(os.Stdout)
			}
		}
	}
}
