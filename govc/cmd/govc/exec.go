package main

import (
	"fmt"
	"go/constant"
	"go/token"
	"go/types"
	"math"
	"math/big"
	"strings"

	"golang.org/x/tools/go/ssa"
)

type pathAbort struct{ reason string }

func (s *State) unsupported(reason string) {
	s.c.unsup[reason] = true
	s.dead = true
}

// ---------- values ----------

func (s *State) constVal(c *ssa.Const) Val {
	t := c.Type()
	if c.Value == nil {
		return s.zeroVal(t)
	}
	switch kindOf(t) {
	case kBool:
		return Val{T: t, S: boolLit(constant.BoolVal(c.Value))}
	case kInt:
		if i, ok := constant.Int64Val(constant.ToInt(c.Value)); ok {
			return Val{T: t, S: intLit(i)}
		}
		b, _ := new(big.Int).SetString(constant.ToInt(c.Value).ExactString(), 10)
		return Val{T: t, S: bigLit(b)}
	case kFloat:
		f, _ := constant.Float64Val(c.Value)
		return Val{T: t, S: fpLit(f)}
	case kStr:
		return s.strLit(constant.StringVal(c.Value), t)
	}
	return s.zeroVal(t)
}

func fpLit(f float64) string {
	bits := math.Float64bits(f)
	b := fmt.Sprintf("%064b", bits)
	return fmt.Sprintf("(fp #b%s #b%s #b%s)", b[0:1], b[1:12], b[12:64])
}

func (s *State) strLit(str string, t types.Type) Val {
	if t == nil {
		t = types.Typ[types.String]
	}
	return Val{T: t, S: s.c.lit(str)}
}

func (s *State) valOf(v ssa.Value) Val {
	switch x := v.(type) {
	case *ssa.Const:
		return s.constVal(x)
	case *ssa.Global:
		return Val{T: x.Type(), Addr: &Addr{Space: "glob", Glob: x, T: derefType(x.Type())}}
	case *ssa.Function:
		return Val{T: x.Type(), Clo: &Closure{Fn: x}}
	case *ssa.FreeVar:
		if fv, ok := s.frees[x]; ok {
			return fv
		}
		s.unsupported("free variable without binding: " + x.Name())
		return Val{T: x.Type()}
	case *ssa.Builtin:
		return Val{T: x.Type()}
	}
	if val, ok := s.env[v]; ok {
		return val
	}
	s.unsupported(fmt.Sprintf("value %s (%T) not bound", v.Name(), v))
	return s.freshVal(v.Type(), "unbound")
}

// freshVal returns an unconstrained well-typed value.
func (s *State) freshVal(t types.Type, hint string) Val {
	cs := comps(t)
	terms := make([]string, len(cs))
	base := s.c.freshName(hint)
	for i, c := range cs {
		n := base + sanitize(c.Suffix)
		s.c.declare(n, fmt.Sprintf("(declare-const %s %s)", n, c.Sort))
		terms[i] = n
	}
	v, _ := unflatten(t, terms)
	s.typeFacts(v)
	return v
}

// ---------- strings ----------

var additiveStr = []string{"blen", "nl", "vlen"}
var conjStr = []string{"clean", "wf", "sgrch", "digits", "noNL", "noCTL"}

// strAtom: one piece of a flattened concatenation: a literal (text) or an opaque term.
type strAtom struct {
	lit  bool
	text string // literal text
	term string // opaque SMT term
}

// strParts flattens a string term into the concatenation it was built from (literals merged).
func (c *FnCtx) strParts(t string) []strAtom {
	if t == "emp" {
		return nil
	}
	if p, ok := c.catParts[t]; ok {
		return p
	}
	if txt, ok := c.litText[t]; ok {
		return []strAtom{{lit: true, text: txt}}
	}
	return []strAtom{{term: t}}
}

// catCanon builds the canonical (right-nested, adjacent literals merged) term for a concatenation, so that
// concatenations that are equal by associativity and literal folding become syntactically identical.
func (c *FnCtx) catCanon(a, b string) string {
	parts := append(append([]strAtom(nil), c.strParts(a)...), c.strParts(b)...)
	var merged []strAtom
	for _, p := range parts {
		if p.lit && len(merged) > 0 && merged[len(merged)-1].lit {
			merged[len(merged)-1].text += p.text
			continue
		}
		if p.lit && p.text == "" {
			continue
		}
		merged = append(merged, p)
	}
	if len(merged) == 0 {
		return "emp"
	}
	atom := func(p strAtom) string {
		if p.lit {
			return c.lit(p.text)
		}
		return p.term
	}
	t := atom(merged[len(merged)-1])
	for i := len(merged) - 2; i >= 0; i-- {
		t = app("cat", atom(merged[i]), t)
	}
	c.catParts[t] = merged
	return t
}

func (s *State) cat(a, b Val) Val {
	if a.S == "emp" {
		return Val{T: a.T, S: b.S}
	}
	if b.S == "emp" {
		return Val{T: a.T, S: a.S}
	}
	canon := s.c.catCanon(a.S, b.S)
	r := s.define("cat", sStr, canon)
	s.c.catParts[r] = s.c.catParts[canon]
	// homomorphism facts for the split the program made
	s.assume(eq(r, app("cat", a.S, b.S)))
	s.catFacts(r, a.S, b.S)
	return Val{T: a.T, S: r}
}

func (s *State) catFacts(r, a, b string) {
	for _, f := range []string{"blen", "nl"} {
		s.assume(eq(app(f, r), app("+", app(f, a), app(f, b))))
	}
	for _, f := range []string{"clean", "digits", "noNL", "noCTL", "sgrch"} {
		s.assume(eq(app(f, r), and(app(f, a), app(f, b))))
	}
	// the cell language is closed under concatenation; the converse fails ("\x1b[" ++ "1m" ++ ...), and visible
	// lengths add up only when both halves consist of whole cells
	bothWf := and(app("wf", a), app("wf", b))
	s.assume(implies(bothWf, and(app("wf", r), eq(app("vlen", r), app("+", app("vlen", a), app("vlen", b))), eq(app("nsc", r), app("+", app("nsc", a), app("nsc", b))))))
	s.assume(implies(and(app("sgrs", a), app("sgrs", b)), app("sgrs", r)))
	s.strBasics(a)
	s.strBasics(b)
	s.strBasics(r)
	if s.c.useLines {
		s.assume(implies(bothWf, and(
			eq(app("fstl", r), ite(eq(app("nl", a), "0"), app("+", app("vlen", a), app("fstl", b)), app("fstl", a))),
			eq(app("lstl", r), ite(eq(app("nl", b), "0"), app("+", app("lstl", a), app("vlen", b)), app("lstl", b))),
			eq(app("mxl", r), app("max2", app("max2", app("mxl", a), app("mxl", b)), app("+", app("lstl", a), app("fstl", b)))),
			eq(app("mmin", r), ite(eq(app("nl", a), "0"), app("mmin", b), ite(eq(app("nl", b), "0"), app("mmin", a),
				app("min2", app("min2", app("mmin", a), app("mmin", b)), app("+", app("lstl", a), app("fstl", b)))))),
			// empty lines: the last line of a and the first line of b merge into one
			eq(app("nel", r), app("+", app("-", app("-", app("+", app("nel", a), app("nel", b)), ite(eq(app("lstl", a), "0"), "1", "0")), ite(eq(app("fstl", b), "0"), "1", "0")),
				ite(eq(app("+", app("lstl", a), app("fstl", b)), "0"), "1", "0"))))))
	}
	if s.c.strOrder {
		s.declOrder()
		s.assume(implies(bothWf, eq(app("nsx", r), app("cat", app("nsx", a), app("nsx", b)))))
		s.nsxBasics(a)
		s.nsxBasics(b)
		s.nsxBasics(r)
	}
	s.cellAutomatonFacts(r)
}

// nsx(s): s with its blank cells (white space, newlines) removed -- the order-preserving content of a
// cell-language string (a homomorphism; defined cell by cell in cells.go)
func (s *State) declOrder() {
	s.c.declare("nsx", "(declare-fun nsx (Str) Str)\n(assert (= (nsx emp) emp))\n(assert (forall ((a Str) (b Str) (c Str)) (! (= (cat (cat a b) c) (cat a (cat b c))) :pattern ((cat (cat a b) c)))))")
}

func (s *State) nsxBasics(a string) {
	s.declOrder()
	s.assume(implies(and(app("wf", a), eq(app("nsc", a), "0")), eq(app("nsx", a), "emp")))
	s.assume(implies(and(app("wf", a), eq(app("nl", a), "0"), eq(app("nsc", a), app("vlen", a))), eq(app("nsx", a), a)))
	if txt, ok := s.c.litText[a]; ok {
		if x, ok := refNsx(txt); ok {
			s.assume(eq(app("nsx", a), s.c.lit(x)))
		}
	}
}

func (s *State) strBasics(a string) {
	s.assume(and(app("<=", "0", app("blen", a)), app("<=", "0", app("nl", a)), app("<=", "0", app("vlen", a)), app("<=", "0", app("nsc", a)), app("<=", app("nsc", a), app("vlen", a))))
	s.assume(and(app("<=", app("blen", a), "9223372036854775807"), app("<=", app("+", app("nl", a), app("vlen", a)), app("blen", a))))
	s.assume(eq(app("noNL", a), eq(app("nl", a), "0")))
	s.assume(implies(app("clean", a), app("wf", a)))
	s.assume(implies(app("digits", a), and(app("clean", a), app("noNL", a), app("noCTL", a), app("sgrch", a))))
	s.assume(implies(app("noCTL", a), and(app("clean", a), app("noNL", a))))
	s.assume(implies(app("sgrch", a), app("noCTL", a)))
	s.assume(eq(app("sgr", a), and(app("sgrch", a), app(">=", app("blen", a), "1"), not(eq(a, s.c.lit("0"))))))
	s.assume(eq(eq(app("blen", a), "0"), eq(a, "emp")))
	// a cell-language string without cells and newlines is empty; a bare visible rune is one clean cell
	s.assume(implies(and(app("wf", a), eq(app("vlen", a), "0"), eq(app("nl", a), "0")), eq(a, "emp")))
	s.assume(implies(app("p1", a), and(app("clean", a), eq(app("vlen", a), "1"), eq(app("nl", a), "0"), app("<=", "1", app("blen", a)), app("<=", app("blen", a), "4"))))
	s.assume(implies(app("sgrs", a), eq(app("nl", a), "0")))
	if s.c.useLines {
		s.assume(and(app("<=", "0", app("fstl", a)), app("<=", app("fstl", a), app("mxl", a)), app("<=", "0", app("lstl", a)), app("<=", app("lstl", a), app("mxl", a)), app("<=", app("mxl", a), app("vlen", a))))
		s.assume(implies(eq(app("nl", a), "0"), and(eq(app("fstl", a), app("vlen", a)), eq(app("lstl", a), app("vlen", a)), eq(app("mxl", a), app("vlen", a)))))
		s.assume(and(app("<=", "0", app("mmin", a)), implies(app("<=", app("nl", a), "1"), eq(app("mmin", a), "9223372036854775808"))))
		s.assume(and(app("<=", "0", app("nel", a)), app("<=", app("nel", a), app("+", app("nl", a), "1")), implies(eq(app("nl", a), "0"), eq(app("nel", a), ite(eq(app("vlen", a), "0"), "1", "0")))))
	}
}

// ---------- interfaces ----------

func (e *Engine) tagOf(t types.Type) int {
	k := types.TypeString(t, nil)
	if n, ok := e.tags[k]; ok {
		return n
	}
	for n, u := range e.tagTypes {
		if types.Identical(t, u) {
			e.tags[k] = n
			return n
		}
	}
	n := len(e.tags) + 1
	e.tags[k] = n
	e.tagTypes[n] = t
	return n
}

func payCtor(t types.Type) (string, string) {
	switch kindOf(t) {
	case kPtr, kMap, kFunc, kChan:
		return "pRef", "pref"
	case kStr:
		return "pStr", "pstr"
	case kFloat:
		return "pNum", "pnum"
	case kBool:
		return "pBool", "pbool"
	case kInt:
		return "pInt", "pint"
	case kSlice:
		return "pSlice", ""
	}
	return "pOther", "pother"
}

func (s *State) box(v Val, ifaceT types.Type) Val {
	if kindOf(v.T) == kIface {
		return Val{T: ifaceT, S: v.S}
	}
	tag := fmt.Sprint(s.c.eng.tagOf(v.T))
	ctor, _ := payCtor(v.T)
	var pay string
	switch ctor {
	case "pSlice":
		pay = app("pSlice", v.Sl.Base, v.Sl.Off, v.Sl.Len, v.Sl.Cap)
	case "pOther":
		// struct or array values boxed into interfaces: opaque identity; the value itself is remembered on
		// the Go side so that an immediate type assertion gets it back
		pay = app("pOther", s.c.freshConst("box", sInt))
		name := s.define("ifc", sIface, app("mkI", tag, pay))
		if s.boxed == nil {
			s.boxed = map[string]Val{}
		}
		nb := make(map[string]Val, len(s.boxed)+1)
		for k, bv := range s.boxed {
			nb[k] = bv
		}
		nb[name] = v
		s.boxed = nb
		return Val{T: ifaceT, S: name}
	default:
		if v.S == "" {
			v.S = s.globRef(v)
		}
		if v.S == "" {
			s.unsupported("boxing a pointer with static address")
			return Val{T: ifaceT, S: "nilI"}
		}
		pay = app(ctor, v.S)
	}
	return Val{T: ifaceT, S: s.define("ifc", sIface, app("mkI", tag, pay))}
}

func (s *State) unbox(x Val, t types.Type) Val {
	ctor, acc := payCtor(t)
	pay := app("ipay", x.S)
	switch ctor {
	case "pSlice":
		v := Val{T: t, Sl: &SliceV{
			s.define("ub", sInt, app("psb", pay)), s.define("ub", sInt, app("pso", pay)),
			s.define("ub", sInt, app("psl", pay)), s.define("ub", sInt, app("psc", pay))}}
		s.typeFacts(v)
		return v
	case "pOther":
		if bv, ok := s.boxed[x.S]; ok && types.Identical(bv.T, t) {
			return bv
		}
		return s.freshVal(t, "unbox")
	}
	v := Val{T: t, S: s.define("ub", sortOfKind(kindOf(t)), app(acc, pay))}
	s.typeFacts(v)
	return v
}

// hasType is the condition "dynamic type of x is exactly t".
func (s *State) hasType(x Val, t types.Type) string {
	tag := fmt.Sprint(s.c.eng.tagOf(t))
	ctor, _ := payCtor(t)
	return and(app("(_ is mkI)", x.S), eq(app("itag", x.S), tag), app("(_ is "+ctor+")", app("ipay", x.S)))
}

func (s *State) implementsCond(x Val, it *types.Interface) string {
	if it.NumMethods() == 0 {
		return app("(_ is mkI)", x.S)
	}
	var alts []string
	for _, t := range s.c.eng.implementers(it) {
		alts = append(alts, s.hasType(x, t))
	}
	return or(alts...)
}

// ---------- instruction semantics ----------

func (s *State) nilCheck(instr ssa.Instruction, v Val, what string) {
	if v.Addr != nil || v.S == "" {
		return
	}
	s.oblige("nil", instr, s.c.ordinal(instr, "nil"), not(eq(v.S, "0")), "nil dereference: "+what, false)
	s.assume(not(eq(v.S, "0")))
}

func (s *State) addrOfPtr(instr ssa.Instruction, v Val) *Addr {
	s.nilCheck(instr, v, v.T.String())
	a := s.ptrAddr(v)
	if a == nil {
		s.unsupported("pointer without address")
		return nil
	}
	return s.resolve(a)
}

func (s *State) arith(instr ssa.Instruction, op token.Token, t types.Type, a, b string) string {
	c := s.c
	var r string
	switch op {
	case token.ADD:
		r = app("+", a, b)
	case token.SUB:
		r = app("-", a, b)
	case token.MUL:
		r = app("*", a, b)
	case token.QUO:
		s.oblige("div", instr, c.ordinal(instr, "div"), not(eq(b, "0")), "division by zero", false)
		// Go truncates toward zero; SMT div floors for positive divisor
		r = ite(app(">=", a, "0"), ite(app(">", b, "0"), app("div", a, b), app("-", app("div", a, app("-", b)))),
			ite(app(">", b, "0"), app("-", app("div", app("-", a), b)), app("div", app("-", a), app("-", b))))
		if isUnsigned(t) {
			r = app("div", a, b)
		}
	case token.REM:
		s.oblige("div", instr, c.ordinal(instr, "div"), not(eq(b, "0")), "division by zero", false)
		if isUnsigned(t) {
			r = app("mod", a, b)
		} else {
			q := ite(app(">=", a, "0"), ite(app(">", b, "0"), app("div", a, b), app("-", app("div", a, app("-", b)))),
				ite(app(">", b, "0"), app("-", app("div", app("-", a), b)), app("div", app("-", a), app("-", b))))
			r = app("-", a, app("*", b, q))
		}
	default:
		return ""
	}
	res := s.define("ar", sInt, r)
	lo, hi := intRange(t)
	switch {
	case op == token.SUB && isUnsigned(t):
		s.oblige("underflow", instr, c.ordinal(instr, "underflow"), app(">=", a, b), "unsigned subtraction wraps below zero", false)
		s.assume(app(">=", res, "0"))
	case (op == token.ADD || op == token.MUL || op == token.SUB) && c.checked:
		s.oblige("overflow", instr, c.ordinal(instr, "overflow"), and(app("<=", lo, res), app("<=", res, hi)), "integer overflow", false)
		s.assume(and(app("<=", lo, res), app("<=", res, hi)))
	}
	return res
}

func cmpOp(op token.Token) string {
	switch op {
	case token.LSS:
		return "<"
	case token.LEQ:
		return "<="
	case token.GTR:
		return ">"
	case token.GEQ:
		return ">="
	}
	return ""
}

func fpCmp(op token.Token) string {
	switch op {
	case token.LSS:
		return "fp.lt"
	case token.LEQ:
		return "fp.leq"
	case token.GTR:
		return "fp.gt"
	case token.GEQ:
		return "fp.geq"
	}
	return ""
}

func (s *State) valEq(a, b Val) (string, bool) {
	switch kindOf(a.T) {
	case kBool, kInt, kStr, kIface, kMap, kChan:
		return eq(a.S, b.S), true
	case kPtr:
		if a.Addr != nil || b.Addr != nil || a.S == "" || b.S == "" {
			return "", false
		}
		return eq(a.S, b.S), true
	case kFunc:
		if a.Clo != nil || b.Clo != nil {
			// comparing a known function to nil
			if a.Clo != nil && b.S == "0" || b.Clo != nil && a.S == "0" {
				return "false", true
			}
			return "", false
		}
		return eq(a.S, b.S), true
	case kFloat:
		return app("fp.eq", a.S, b.S), true
	case kSlice:
		// only comparison against nil is legal
		if b.Sl != nil && b.Sl.Base == "0" {
			return eq(a.Sl.Base, "0"), true
		}
		if a.Sl != nil && a.Sl.Base == "0" {
			return eq(b.Sl.Base, "0"), true
		}
		return "", false
	case kStruct:
		var cs []string
		for i := range a.Flds {
			c, ok := s.valEq(a.Flds[i], b.Flds[i])
			if !ok {
				return "", false
			}
			cs = append(cs, c)
		}
		return and(cs...), true
	}
	return "", false
}

func (s *State) binop(instr *ssa.BinOp) Val {
	a, b := s.valOf(instr.X), s.valOf(instr.Y)
	t := instr.Type()
	switch instr.Op {
	case token.EQL, token.NEQ:
		// interface compared with concrete-nil const etc. are already typed by ssa
		c, ok := s.valEq(a, b)
		if !ok {
			return s.freshVal(t, "cmp")
		}
		if instr.Op == token.NEQ {
			c = not(c)
		}
		return Val{T: t, S: s.define("c", sBool, c)}
	}
	switch kindOf(a.T) {
	case kInt:
		if op := cmpOp(instr.Op); op != "" {
			return Val{T: t, S: s.define("c", sBool, app(op, a.S, b.S))}
		}
		if r := s.arith(instr, instr.Op, t, a.S, b.S); r != "" {
			return Val{T: t, S: r}
		}
		// bitwise and shifts: uninterpreted
		return s.freshVal(t, "bitop")
	case kFloat:
		if op := fpCmp(instr.Op); op != "" {
			return Val{T: t, S: s.define("c", sBool, app(op, a.S, b.S))}
		}
		var op string
		switch instr.Op {
		case token.ADD:
			op = "fp.add RNE"
		case token.SUB:
			op = "fp.sub RNE"
		case token.MUL:
			op = "fp.mul RNE"
		case token.QUO:
			op = "fp.div RNE"
		}
		if op != "" {
			return Val{T: t, S: s.define("f", sF64, app(op, a.S, b.S))}
		}
	case kStr:
		if instr.Op == token.ADD {
			r := s.cat(a, b)
			r.T = t
			return r
		}
		return s.freshVal(t, "strcmp")
	}
	return s.freshVal(t, "binop")
}

func (s *State) convert(instr *ssa.Convert) Val {
	x := s.valOf(instr.X)
	from, to := x.T, instr.Type()
	c := s.c
	switch {
	case kindOf(from) == kInt && kindOf(to) == kInt:
		lo, hi := intRange(to)
		flo, fhi := intRange(from)
		_ = flo
		need := false
		// conversion can change the value only if the target range does not include the source range
		if isUnsigned(to) != isUnsigned(from) {
			need = true
		} else if fhi != hi {
			var a, b big.Int
			a.SetString(strings.Trim(fhi, "()- "), 10)
			b.SetString(strings.Trim(hi, "()- "), 10)
			need = a.Cmp(&b) > 0
		}
		if need {
			goal := and(app("<=", lo, x.S), app("<=", x.S, hi))
			if isUnsigned(to) && !isUnsigned(from) && !c.checked {
				goal = app("<=", "0", x.S)
			} else if !c.checked && !(isUnsigned(to) && !isUnsigned(from)) {
				// narrowing or uint->int: only checked in checked mode
				if isUnsigned(from) && !isUnsigned(to) {
					return Val{T: to, S: x.S}
				}
			}
			s.oblige("conv", instr, c.ordinal(instr, "conv"), goal, fmt.Sprintf("conversion %s -> %s changes the value", from, to), false)
			s.assume(goal)
		}
		return Val{T: to, S: x.S}
	case kindOf(from) == kFloat && kindOf(to) == kInt:
		lo, hi := intRange(to)
		_ = lo
		var hiB big.Int
		hiB.SetString(hi, 10)
		hiF, _ := new(big.Float).SetInt(new(big.Int).Add(&hiB, big.NewInt(1))).Float64()
		var goal string
		if isUnsigned(to) {
			goal = and(app("fp.leq", fpLit(0), x.S), app("fp.lt", x.S, fpLit(hiF)))
			// values in (-1,0) truncate to 0 and are fine too
			goal = or(goal, and(app("fp.lt", fpLit(-1), x.S), app("fp.lt", x.S, fpLit(0))))
		} else {
			goal = and(app("fp.leq", fpLit(-hiF), x.S), app("fp.lt", x.S, fpLit(hiF)))
		}
		s.oblige("conv", instr, c.ordinal(instr, "conv"), goal, fmt.Sprintf("float conversion %s -> %s out of range (implementation-defined result)", from, to), false)
		r := s.freshVal(to, "f2i")
		// faithful value: r == trunc(x) as a real number
		s.assume(implies(goal, eq(app("to_real", r.S), app("fp.to_real", app("fp.roundToIntegral", "RTZ", x.S)))))
		return r
	case kindOf(from) == kInt && kindOf(to) == kFloat:
		return Val{T: to, S: s.define("i2f", sF64, app("(_ to_fp 11 53)", "RNE", app("to_real", x.S)))}
	case kindOf(from) == kFloat && kindOf(to) == kFloat:
		return Val{T: to, S: x.S}
	case kindOf(to) == kStr && kindOf(from) == kInt:
		// string(byte/rune): one rune
		r := s.freshVal(to, "chr")
		s.strBasics(r.S)
		s.assume(app(">=", app("blen", r.S), "1"))
		s.assume(eq(app("vlen", r.S), ite(eq(x.S, "10"), "0", "1")))
		s.assume(eq(app("nl", r.S), ite(eq(x.S, "10"), "1", "0")))
		s.c.declare("runeOf", "(declare-fun runeOf (Str) Int)")
		s.c.declare("chrOf", "(declare-fun chrOf (Int) Str)")
		s.assume(eq(app("runeOf", r.S), x.S))
		s.assume(eq(r.S, app("chrOf", x.S)))
		s.c.declare("isControl", "(define-fun isControl ((r Int)) Bool (or (and (<= 0 r) (<= r 31)) (and (<= 127 r) (<= r 159))))")
		s.assume(eq(app("clean", r.S), or(eq(x.S, "10"), not(app("isControl", x.S)))))
		s.assume(eq(app("digits", r.S), and(app("<=", "48", x.S), app("<=", x.S, "57"))))
		return r
	case kindOf(to) == kStr && kindOf(from) == kSlice:
		return s.libRunesToString(x, to)
	case kindOf(to) == kSlice && kindOf(from) == kStr:
		return s.libStringToRunes(x, to)
	case kindOf(to) == kStr && kindOf(from) == kStr:
		return Val{T: to, S: x.S}
	case kindOf(to) == kPtr && kindOf(from) == kPtr:
		x.T = to
		return x
	}
	s.unsupported(fmt.Sprintf("conversion %s -> %s", from, to))
	return s.freshVal(to, "conv")
}

func (s *State) sliceOp(instr *ssa.Slice) Val {
	x := s.valOf(instr.X)
	c := s.c
	var lo, hi, mx string
	if instr.Low != nil {
		lo = s.valOf(instr.Low).S
	}
	if instr.High != nil {
		hi = s.valOf(instr.High).S
	}
	if instr.Max != nil {
		mx = s.valOf(instr.Max).S
	}
	switch kindOf(x.T) {
	case kStr:
		return s.libSubstr(instr, x, lo, hi)
	case kPtr: // *array
		at := derefType(x.T).Underlying().(*types.Array)
		s.nilCheck(instr, x, "slicing nil *array")
		n := intLit(at.Len())
		a := s.addrOfPtr(instr, x)
		if a == nil {
			return s.freshVal(instr.Type(), "slice")
		}
		x = Val{T: types.NewSlice(at.Elem()), Sl: &SliceV{a.Ref, "0", n, n}}
	case kSlice:
	default:
		s.unsupported("slice of " + x.T.String())
		return s.freshVal(instr.Type(), "slice")
	}
	if lo == "" {
		lo = "0"
	}
	if hi == "" {
		hi = x.Sl.Len
	}
	capv := x.Sl.Cap
	goal := and(app("<=", "0", lo), app("<=", lo, hi), app("<=", hi, capv))
	if mx != "" {
		goal = and(app("<=", "0", lo), app("<=", lo, hi), app("<=", hi, mx), app("<=", mx, capv))
		capv = mx
	}
	s.oblige("bounds", instr, c.ordinal(instr, "bounds"), goal, "slice bounds out of range", false)
	s.assume(goal)
	r := Val{T: instr.Type(), Sl: &SliceV{
		Base: x.Sl.Base,
		Off:  s.define("so", sInt, addT(x.Sl.Off, lo)),
		Len:  s.define("sl", sInt, subT(hi, lo)),
		Cap:  s.define("sc", sInt, subT(capv, lo)),
	}}
	if c.cellsMode {
		if et := x.T.Underlying().(*types.Slice).Elem(); kindOf(et) == kSlice && kindOf(et.Underlying().(*types.Slice).Elem()) == kStr {
			s.cellsSliceFacts(x, r)
		}
	}
	return r
}

func (s *State) typeAssert(instr *ssa.TypeAssert) Val {
	x := s.valOf(instr.X)
	at := instr.AssertedType
	var cond string
	var val Val
	if it, ok := at.Underlying().(*types.Interface); ok {
		cond = s.implementsCond(x, it)
		val = Val{T: at, S: x.S}
	} else {
		cond = s.hasType(x, at)
	}
	condN := s.define("ta", sBool, cond)
	if !instr.CommaOk {
		s.oblige("assert-type", instr, s.c.ordinal(instr, "assert-type"), condN, "type assertion fails", false)
		s.assume(condN)
		if val.T == nil {
			val = s.unbox(x, at)
		}
		return val
	}
	if val.T == nil {
		// on failure the zero value is produced
		ub := s.unbox(x, at)
		z := s.zeroVal(at)
		uts, zts := flatten(ub), flatten(z)
		cs := comps(at)
		terms := make([]string, len(cs))
		for i := range cs {
			terms[i] = s.define("tav", cs[i].Sort, ite(condN, uts[i], zts[i]))
		}
		val, _ = unflatten(at, terms)
	} else {
		val = Val{T: at, S: s.define("tav", sIface, ite(condN, x.S, "nilI"))}
	}
	return Val{T: instr.Type(), Flds: []Val{val, {T: types.Typ[types.Bool], S: condN}}}
}

// step executes one non-terminator instruction.
func (s *State) step(instr ssa.Instruction) {
	c := s.c
	switch x := instr.(type) {
	case *ssa.DebugRef:
		if id, ok := x.Expr.(interface{ String() string }); ok {
			_ = id
		}
		if obj := x.Object(); obj != nil {
			nb := nameBinding{V: x.X, IsAddr: x.IsAddr, Obj: obj}
			// a variable that lives in memory (captured by a function literal, or address taken): its name denotes
			// the cell (its CURRENT content, also after a literal that captured it has written it), not the value
			// one particular read or assignment produced
			if !x.IsAddr {
				if _, isVar := obj.(*types.Var); isVar {
					if ld, ok := x.X.(*ssa.UnOp); ok && ld.Op == token.MUL {
						switch a := ld.X.(type) {
						case *ssa.Alloc:
							if a.Comment == obj.Name() {
								nb = nameBinding{V: a, IsAddr: true, Obj: obj}
							}
						case *ssa.FreeVar:
							if a.Name() == obj.Name() {
								nb = nameBinding{V: a, IsAddr: true, Obj: obj}
							}
						}
					}
					if cur, ok := s.names[obj.Name()]; ok && cur.IsAddr && cur.Obj == obj {
						if _, isCell := cur.V.(*ssa.Alloc); isCell {
							nb = cur
						} else if _, isFV := cur.V.(*ssa.FreeVar); isFV {
							nb = cur
						}
					}
				}
			}
			s.names[obj.Name()] = nb
		}
	case *ssa.Alloc:
		v := s.allocObj(derefType(x.Type()), x.Type())
		s.env[x] = v
		if x.Comment != "" && !strings.ContainsAny(x.Comment, " .()") {
			s.names[x.Comment] = nameBinding{V: x, IsAddr: true}
		}
	case *ssa.FieldAddr:
		p := s.valOf(x.X)
		a := s.addrOfPtr(x, p)
		if a == nil || s.dead {
			return
		}
		st := derefType(p.T)
		if a.Space != "obj" && a.Space != "elem" {
			s.unsupported("FieldAddr on " + a.Space)
			return
		}
		fa := s.fieldAddr(a, st, x.Field)
		v := Val{T: x.Type(), Addr: fa}
		if k := kindOf(fa.T); (k == kStruct || k == kArray) && fa.Space == "fld" {
			r := s.resolve(fa)
			v = Val{T: x.Type(), S: r.Ref}
		}
		s.env[x] = v
	case *ssa.Field:
		sv := s.valOf(x.X)
		if x.Field < len(sv.Flds) {
			s.env[x] = sv.Flds[x.Field]
		} else {
			s.env[x] = s.freshVal(x.Type(), "field")
		}
	case *ssa.IndexAddr:
		base := s.valOf(x.X)
		idx := s.valOf(x.Index)
		switch kindOf(base.T) {
		case kSlice:
			goal := and(app("<=", "0", idx.S), app("<", idx.S, base.Sl.Len))
			s.oblige("bounds", x, c.ordinal(x, "bounds"), goal, "index out of range", false)
			s.assume(goal)
			ea := s.sliceElemAddr(base, idx.S)
			if c.cellsMode {
				switch et := ea.Elem; {
				case kindOf(et) == kStr:
					s.cellsInnerIndex(ea.Ref, ea.Idx)
				case kindOf(et) == kSlice && kindOf(et.Underlying().(*types.Slice).Elem()) == kStr:
					s.cellsOuterIndex(ea.Ref, base.Sl.Off, ea.Idx, et)
				}
			}
			s.env[x] = Val{T: x.Type(), Addr: ea}
		case kPtr:
			at := derefType(base.T).Underlying().(*types.Array)
			a := s.addrOfPtr(x, base)
			if a == nil {
				return
			}
			goal := and(app("<=", "0", idx.S), app("<", idx.S, intLit(at.Len())))
			s.oblige("bounds", x, c.ordinal(x, "bounds"), goal, "index out of range", false)
			s.assume(goal)
			s.env[x] = Val{T: x.Type(), Addr: &Addr{Space: "elem", Ref: a.Ref, Idx: idx.S, Elem: at.Elem(), T: at.Elem()}}
		default:
			s.unsupported("IndexAddr on " + base.T.String())
		}
	case *ssa.Index:
		s.env[x] = s.libIndex(x)
	case *ssa.UnOp:
		v := s.valOf(x.X)
		switch x.Op {
		case token.MUL:
			a := s.addrOfPtr(x, v)
			if a == nil || s.dead {
				s.env[x] = s.freshVal(x.Type(), "load")
				return
			}
			s.lockCheck(x, a)
			ld := s.loadAddr(a)
			ld.T = x.Type()
			s.env[x] = ld
		case token.NOT:
			s.env[x] = Val{T: x.Type(), S: not(v.S)}
		case token.SUB:
			if kindOf(v.T) == kFloat {
				s.env[x] = Val{T: x.Type(), S: s.define("neg", sF64, app("fp.neg", v.S))}
			} else {
				r := s.arith(x, token.SUB, x.Type(), "0", v.S)
				s.env[x] = Val{T: x.Type(), S: r}
			}
		default:
			s.env[x] = s.freshVal(x.Type(), "unop")
		}
	case *ssa.Store:
		p := s.valOf(x.Addr)
		v := s.valOf(x.Val)
		a := s.addrOfPtr(x, p)
		if a == nil || s.dead {
			return
		}
		if v.Addr != nil && v.S == "" {
			s.unsupported("storing an interior pointer")
			return
		}
		if v.Clo != nil && v.S == "" {
			v.S = s.closureID(v.Clo)
		}
		s.frameCheck(x, a)
		s.lockCheck(x, a)
		if c.cellsMode && a.Space == "elem" && len(a.Path) == 0 {
			s.cellsStoreCheck(x, a.Ref, a.Elem)
		}
		if c.provMode && a.Space == "elem" && len(a.Path) == 0 {
			// a list built around a JSON value belongs to that value's document (definition of the ghost for the
			// fresh list; the closed-world scan "anylist" confines such stores to object.GetList's singleton)
			s.provenanceFacts(a.Ref, v)
		}
		s.storeAddr(a, v)
	case *ssa.BinOp:
		s.env[x] = s.binop(x)
	case *ssa.ChangeType:
		v := s.valOf(x.X)
		v.T = x.Type()
		s.env[x] = v
	case *ssa.ChangeInterface:
		v := s.valOf(x.X)
		v.T = x.Type()
		s.env[x] = v
	case *ssa.Convert:
		s.env[x] = s.convert(x)
	case *ssa.MakeInterface:
		bv := s.valOf(x.X)
		if bi, named, isPtr := c.eng.boxInvFor(bv.T); bi != nil && bv.S != "" {
			if t, ok := s.boxInvTerm(bi, named, isPtr, bv); ok {
				if isPtr {
					// a nil pointer carries no object the invariant could speak about
					t = implies(not(eq(bv.S, "0")), t)
				}
				s.oblige("boxinv:"+bi.Type, x, c.ordinal(x, "boxinv"), t, bi.Pred+" must hold when a "+bi.Type+" is handed out as an interface value", true)
			}
		}
		s.env[x] = s.box(bv, x.Type())
	case *ssa.TypeAssert:
		s.env[x] = s.typeAssert(x)
	case *ssa.Extract:
		tv := s.valOf(x.Tuple)
		if x.Index < len(tv.Flds) {
			s.env[x] = tv.Flds[x.Index]
		} else {
			s.env[x] = s.freshVal(x.Type(), "extract")
		}
	case *ssa.MakeSlice:
		ln, cp := s.valOf(x.Len), s.valOf(x.Cap)
		goal := and(app("<=", "0", ln.S), app("<=", ln.S, cp.S))
		s.oblige("lib-pre:make", x, c.ordinal(x, "lib-pre:make"), goal, "make: len/cap out of range", false)
		s.assume(goal)
		r := s.newRef()
		et := x.Type().Underlying().(*types.Slice).Elem()
		s.zeroElems(r, et)
		s.env[x] = Val{T: x.Type(), Sl: &SliceV{r, "0", ln.S, cp.S}}
	case *ssa.MakeMap:
		s.env[x] = s.newMap(x.Type())
	case *ssa.MakeClosure:
		clo := &Closure{Fn: x.Fn.(*ssa.Function)}
		for _, b := range x.Bindings {
			clo.Bindings = append(clo.Bindings, s.valOf(b))
		}
		s.env[x] = Val{T: x.Type(), Clo: clo}
	case *ssa.MakeChan:
		s.env[x] = Val{T: x.Type(), S: s.newRef()}
	case *ssa.Slice:
		s.env[x] = s.sliceOp(x)
	case *ssa.Lookup:
		m := s.valOf(x.X)
		k := s.valOf(x.Index)
		if kindOf(m.T) == kStr {
			s.env[x] = s.libIndexStr(x, m, k)
			return
		}
		v, ok := s.mapLookup(m.T, m.S, k.S)
		if x.CommaOk {
			s.env[x] = Val{T: x.Type(), Flds: []Val{v, {T: types.Typ[types.Bool], S: ok}}}
		} else {
			s.env[x] = v
		}
	case *ssa.MapUpdate:
		m := s.valOf(x.Map)
		k := s.valOf(x.Key)
		v := s.valOf(x.Value)
		s.oblige("nil", x, c.ordinal(x, "nil"), not(eq(m.S, "0")), "assignment to entry in nil map", false)
		s.assume(not(eq(m.S, "0")))
		s.frameCheckMap(x, m)
		s.mapUpdate(m.T, m.S, k.S, v)
	case *ssa.Call:
		s.call(x, &x.Call, func(st *State, res []Val) {})
		panic("call must be handled by runFrom")
	case *ssa.Go:
		s.goStmt(x)
	case *ssa.Defer:
		d := deferredCall{call: &x.Call, site: x}
		for _, a := range x.Call.Args {
			d.args = append(d.args, s.valOf(a))
		}
		if !x.Call.IsInvoke() {
			d.fnv = s.valOf(x.Call.Value)
		} else {
			d.fnv = s.valOf(x.Call.Value)
		}
		if n := len(s.frames); n > 0 {
			fr := s.frames[n-1]
			fr.defers = append(append([]deferredCall(nil), fr.defers...), d)
			s.frames = append(s.frames[:n-1:n-1], fr)
		}
	case *ssa.RunDefers:
		panic("rundefers must be handled by runFrom")
	case *ssa.Range, *ssa.Next, *ssa.Select, *ssa.Send:
		s.unsupported(fmt.Sprintf("%T", instr))
	default:
		s.unsupported(fmt.Sprintf("instruction %T", instr))
	}
}

func (s *State) closureID(c *Closure) string {
	id := s.c.eng.fnID(c.Fn)
	return fmt.Sprint(id)
}

// globRef: the address of a package-level variable as an opaque reference that existed before this activation
// ("" when v is not such an address).
func (s *State) globRef(v Val) string {
	if v.S != "" || v.Addr == nil || v.Addr.Space != "glob" || v.Addr.Glob == nil || v.Addr.Glob.Pkg == nil {
		return v.S
	}
	g := "gref_" + sanitize(v.Addr.Glob.Pkg.Pkg.Name()+"_"+v.Addr.Glob.Name())
	s.c.declare(g, "(declare-const "+g+" Int)")
	s.assume(and(app("<", "0", g), app("<", g, s.alloc0)))
	return g
}
