package main

import (
	"os"
	"fmt"
	"go/constant"
	"go/types"
	"strconv"
	"strings"

	"golang.org/x/tools/go/ssa"
)

// EvalCtx evaluates spec expressions to terms without touching the state's lines.
type EvalCtx struct {
	s        *State
	old      *State
	vars     map[string]Val
	pkg      *ssa.Package
	locals   bool // resolve source-level locals through DebugRefs
	facts    []string
	shadow   map[string]bool // names bound explicitly (callee parameters at a call site): never the enclosing function's locals
	err      []string
	bound    int
	depth    int
	factSink *State
	lenient  bool // assumed clause: references to ghost state that does not exist here void the clause
	skip     bool
	qvars    []string            // bound variable names in scope
	trig     map[string][]string // bound variable -> candidate trigger terms (element reads indexed by it)
}

func (x *EvalCtx) fail(format string, a ...any) Val {
	x.err = append(x.err, fmt.Sprintf(format, a...))
	return Val{T: types.Typ[types.Bool], S: "true"}
}

var nilT = types.Typ[types.UntypedNil]
var intT = types.Typ[types.Int]
var boolT = types.Typ[types.Bool]
var strT = types.Typ[types.String]

// pure heap reads -------------------------------------------------

func (s *State) pureRoot(key, sort string) string {
	if t, ok := s.heap[key]; ok {
		return t
	}
	return s.heapGet(key, sort)
}

func (s *State) pureRead(a *Addr, c comp) string {
	switch a.Space {
	case "fld":
		s.noteRefLike(s.fldKey(a.Struct, a.Field, c.Suffix), c, false)
	case "elem":
		s.noteRefLike(elemKey(a.Elem, a.Path, c.Suffix), c, true)
	case "cell":
		s.noteRefLike("cell|"+typeKey(a.T)+c.Suffix, c, false)
	}
	switch a.Space {
	case "fld":
		return sel(s.pureRoot(s.fldKey(a.Struct, a.Field, c.Suffix), arrSort(sInt, c.Sort)), a.Ref)
	case "elem":
		return sel(sel(s.pureRoot(elemKey(a.Elem, a.Path, c.Suffix), arrSort(sInt, arrSort(sInt, c.Sort))), a.Ref), a.Idx)
	case "cell":
		return sel(s.pureRoot("cell|"+typeKey(a.T)+c.Suffix, arrSort(sInt, c.Sort)), a.Ref)
	case "glob":
		return s.pureRoot("glob|"+a.Glob.Pkg.Pkg.Name()+"."+a.Glob.Name()+c.Suffix, c.Sort)
	}
	panic("pureRead " + a.Space)
}

func (s *State) pureLoad(a *Addr) Val {
	t := a.T
	switch kindOf(t) {
	case kStruct:
		if a.Space == "fld" {
			// nested object: implicit pointer
			inner := sel(s.pureRoot(s.fldKey(a.Struct, a.Field, ""), arrSort(sInt, sInt)), a.Ref)
			return Val{T: types.NewPointer(t), S: inner} // treated as pointer to the inner object
		}
		if a.Space == "obj" {
			st := t.Underlying().(*types.Struct)
			v := Val{T: t}
			for i := 0; i < st.NumFields(); i++ {
				v.Flds = append(v.Flds, s.pureLoad(&Addr{Space: "fld", Struct: t, Field: i, Ref: a.Ref, T: st.Field(i).Type()}))
			}
			return v
		}
		if a.Space == "elem" {
			st := t.Underlying().(*types.Struct)
			v := Val{T: t}
			for i := 0; i < st.NumFields(); i++ {
				v.Flds = append(v.Flds, s.pureLoad(&Addr{Space: "elem", Ref: a.Ref, Idx: a.Idx, Elem: a.Elem, Path: append(append([]int(nil), a.Path...), i), T: st.Field(i).Type()}))
			}
			return v
		}
	case kArray, kBad:
		return Val{T: t}
	}
	cs := comps(t)
	terms := make([]string, len(cs))
	for i, c := range cs {
		terms[i] = s.pureRead(a, c)
	}
	v, _ := unflatten(t, terms)
	return v
}

// evaluation ------------------------------------------------------

// eval evaluates a spec expression; well-formedness facts about the (ground) heap terms it reads are added to
// the state the expression is evaluated in (they hold for every well-typed Go heap).
func (x *EvalCtx) eval(e Expr) Val {
	v := x.eval1(e)
	if len(x.facts) > 0 && x.depth == 0 {
		tgt := x.factSink
		if tgt == nil {
			tgt = x.s
		}
		for _, f := range x.facts {
			tgt.assume(f)
		}
		x.facts = nil
	}
	return v
}

// strFacts: the basic facts of a string term built by a spec builtin.
func (x *EvalCtx) strFacts(t string) {
	if strings.Contains(t, "!q") {
		return
	}
	tgt := x.factSink
	if tgt == nil {
		tgt = x.s
	}
	tgt.strBasics(t)
}

func (x *EvalCtx) note(v Val) Val {
	ground := func(t string) bool { return !strings.Contains(t, "!q") }
	switch kindOf(v.T) {
	case kSlice:
		if v.Sl != nil && ground(v.Sl.Len) && ground(v.Sl.Cap) && ground(v.Sl.Base) {
			x.facts = append(x.facts, and(app("<=", "0", v.Sl.Len), app("<=", "0", v.Sl.Off), sliceFacts(v)))
		}
	case kInt:
		if isUnsigned(v.T) && v.S != "" && ground(v.S) && strings.HasPrefix(v.S, "(select") {
			x.facts = append(x.facts, app("<=", "0", v.S))
		}
	}
	return v
}

func (x *EvalCtx) eval1(e Expr) Val {
	x.depth++
	defer func() { x.depth-- }()
	switch n := e.(type) {
	case *EInt:
		v, err := strconv.ParseInt(n.V, 0, 64)
		if err != nil {
			u, err2 := strconv.ParseUint(n.V, 0, 64)
			if err2 != nil {
				return x.fail("bad integer %s", n.V)
			}
			return Val{T: intT, S: fmt.Sprint(u)}
		}
		return Val{T: intT, S: intLit(v)}
	case *EStr:
		return Val{T: strT, S: x.s.c.lit(n.V)}
	case *EBool:
		return Val{T: boolT, S: boolLit(n.V)}
	case *ENil:
		return Val{T: nilT}
	case *EIdent:
		return x.ident(n.Name)
	case *EUnary:
		v := x.eval(n.X)
		switch n.Op {
		case "!":
			return Val{T: boolT, S: not(v.S)}
		case "-":
			return Val{T: v.T, S: app("-", v.S)}
		case "*":
			a := x.s.ptrAddr(v)
			if a == nil {
				return x.fail("cannot dereference %s", n.X)
			}
			return x.s.pureLoad(a)
		}
	case *EBinary:
		return x.binary(n)
	case *ECond:
		c, a, b := x.eval(n.C), x.eval(n.A), x.eval(n.B)
		if len(flatten(a)) != 1 || len(flatten(b)) != 1 {
			return x.fail("conditional over composite values: %s", e)
		}
		return Val{T: a.T, S: ite(c.S, a.S, b.S)}
	case *ESelect:
		return x.note(x.selectExpr(n))
	case *EIndex:
		return x.note(x.index(n))
	case *ECall:
		return x.callExpr(n)
	case *EQuant:
		return x.quant(n)
	}
	return x.fail("unsupported spec expression %s", e)
}

// isEntryParam: v is the entry value of the verified function's parameter called name.
func (x *EvalCtx) isEntryParam(name string, v Val) bool {
	for _, p := range x.s.c.fn.Params {
		if p.Name() != name {
			continue
		}
		ev, ok := x.s.c.entryVals[p]
		if !ok {
			return false
		}
		a, b := flatten(ev), flatten(v)
		if len(a) != len(b) || len(a) == 0 {
			return false
		}
		for i := range a {
			if a[i] != b[i] {
				return false
			}
		}
		return true
	}
	return false
}

func (x *EvalCtx) ident(name string) Val {
	if x.locals {
		// a parameter that has been reassigned denotes its current value where locals are in scope
		if cur, isParam := x.vars[name]; isParam && !x.shadow[name] && x.isEntryParam(name, cur) {
			if nb, ok := x.s.names[name]; ok && !nb.IsAddr {
				if _, isP := nb.V.(*ssa.Parameter); !isP {
					if v, ok := x.s.env[nb.V]; ok {
						return v
					}
					if c, isC := nb.V.(*ssa.Const); isC {
						return x.s.constVal(c)
					}
				}
			}
		}
	}
	if v, ok := x.vars[name]; ok {
		return v
	}
	if x.s.locals != nil {
		if v, ok := x.s.locals[name]; ok {
			return v
		}
	}
	if x.locals {
		if name == "iter" {
			if nb, ok := x.s.names["rangeindex"]; ok {
				v := x.s.env[nb.V]
				return Val{T: intT, S: app("+", v.S, "1")}
			}
			if nb, ok := x.s.names["itercount"]; ok {
				if v, ok := x.s.env[nb.V]; ok {
					return Val{T: intT, S: v.S}
				}
			}
		}
		if nb, ok := x.s.names[name]; ok {
			if os.Getenv("GOVC_DEBUG_NAMES") == name {
				fmt.Fprintf(os.Stderr, "name %s -> %T %v isaddr=%v\n", name, nb.V, nb.V, nb.IsAddr)
			}
			v, ok2 := x.s.env[nb.V]
			if !ok2 {
				if c, isC := nb.V.(*ssa.Const); isC {
					v = x.s.constVal(c)
					ok2 = true
				} else if _, isP := nb.V.(*ssa.Parameter); isP {
					v, ok2 = x.s.env[nb.V]
				}
			}
			if ok2 {
				if nb.IsAddr {
					a := x.s.ptrAddr(v)
					if a != nil {
						lv := x.s.pureLoad(a)
						if kindOf(lv.T) == kStr && lv.S != "" {
							// the content of a string variable that lives in memory: the basic measure facts
							// (0 <= nsc <= vlen, ...) hold of it as of every string value
							x.s.strBasics(lv.S)
						}
						return lv
					}
				}
				return v
			}
		}
	}
	// package-level
	if x.pkg != nil {
		if m, ok := x.pkg.Members[name]; ok {
			return x.member(m)
		}
	}
	if v, ok := x.s.ghost[name]; ok {
		return v
	}
	if x.lenient && (strings.HasPrefix(name, "exec_") || strings.HasPrefix(name, "net_")) {
		// ghost state of another activation: the clause says nothing here
		x.skip = true
		return Val{T: boolT, S: "true"}
	}
	return x.fail("unknown identifier %s", name)
}

func (x *EvalCtx) member(m ssa.Member) Val {
	switch g := m.(type) {
	case *ssa.Global:
		if id, ok := x.s.c.eng.sentinelID(g); ok {
			return Val{T: derefType(g.Type()), S: x.s.mkErr(intLit(int64(id)))}
		}
		return x.s.pureLoad(&Addr{Space: "glob", Glob: g, T: derefType(g.Type())})
	case *ssa.NamedConst:
		c := g.Value
		switch kindOf(c.Type()) {
		case kInt:
			i, _ := constant.Int64Val(constant.ToInt(c.Value))
			return Val{T: c.Type(), S: intLit(i)}
		case kStr:
			return Val{T: c.Type(), S: x.s.c.lit(constant.StringVal(c.Value))}
		case kBool:
			return Val{T: c.Type(), S: boolLit(constant.BoolVal(c.Value))}
		}
	}
	return x.fail("unsupported package member %s", m.Name())
}

func (x *EvalCtx) importedPkg(name string) *ssa.Package {
	if x.pkg == nil {
		return nil
	}
	for _, imp := range x.pkg.Pkg.Imports() {
		if imp.Name() == name {
			return x.s.c.eng.prog.Package(imp)
		}
	}
	return nil
}

func (x *EvalCtx) selectExpr(n *ESelect) Val {
	if id, ok := n.X.(*EIdent); ok {
		if _, isVar := x.vars[id.Name]; !isVar {
			if _, isLocal := x.s.names[id.Name]; !(x.locals && isLocal) {
				if p := x.importedPkg(id.Name); p != nil {
					if m, ok := p.Members[n.F]; ok {
						return x.member(m)
					}
					return x.fail("package %s has no member %s", id.Name, n.F)
				}
			}
		}
	}
	v := x.eval(n.X)
	return x.fieldOf(v, n.F, n)
}

func (x *EvalCtx) fieldOf(v Val, f string, n Expr) Val {
	if v.T == nil {
		return x.fail("no type for %s", n)
	}
	// tuple/result components
	if kindOf(v.T) == kTuple {
		i, err := strconv.Atoi(f)
		if err == nil && i < len(v.Flds) {
			return v.Flds[i]
		}
	}
	t := v.T
	if pt := derefType(t); pt != nil {
		st, ok := pt.Underlying().(*types.Struct)
		if !ok {
			return x.fail("%s: not a struct pointer", n)
		}
		for i := 0; i < st.NumFields(); i++ {
			if st.Field(i).Name() == f {
				if v.Addr != nil {
					a := x.s.resolvePure(v.Addr)
					return x.s.pureLoad(x.s.fieldAddr(a, pt, i))
				}
				return x.s.pureLoad(&Addr{Space: "fld", Struct: pt, Field: i, Ref: v.S, T: st.Field(i).Type()})
			}
		}
		return x.fail("%s: no field %s", n, f)
	}
	if st, ok := t.Underlying().(*types.Struct); ok {
		for i := 0; i < st.NumFields(); i++ {
			if st.Field(i).Name() == f && i < len(v.Flds) {
				return v.Flds[i]
			}
		}
	}
	if kindOf(t) == kSlice && v.Sl != nil {
		switch f {
		case "base":
			return Val{T: intT, S: v.Sl.Base}
		case "off":
			return Val{T: intT, S: v.Sl.Off}
		case "cap":
			return Val{T: intT, S: v.Sl.Cap}
		}
	}
	return x.fail("%s: cannot select %s from %s", n, f, t)
}

func (s *State) resolvePure(a *Addr) *Addr {
	if a.Space == "fld" && kindOf(a.T) == kStruct {
		inner := sel(s.pureRoot(s.fldKey(a.Struct, a.Field, ""), arrSort(sInt, sInt)), a.Ref)
		return &Addr{Space: "obj", Ref: inner, T: a.T}
	}
	return a
}

func (x *EvalCtx) recordTriggers(idx string, v Val) {
	for _, q := range x.qvars {
		if !strings.Contains(idx, q) {
			continue
		}
		if x.trig == nil {
			x.trig = map[string][]string{}
		}
		for _, t := range flatten(v) {
			if strings.HasPrefix(t, "(select") && strings.Contains(t, q) && len(x.trig[q]) < 8 {
				// the trigger must not mention other bound variables of inner quantifiers
				ok := true
				for _, o := range x.qvars {
					if o != q && strings.Contains(t, o) {
						ok = false
					}
				}
				if ok {
					x.trig[q] = append(x.trig[q], t)
				}
			}
		}
	}
}

func (x *EvalCtx) index(n *EIndex) Val {
	v := x.index1(n)
	if len(x.qvars) > 0 {
		i := x.eval(n.I)
		x.recordTriggers(i.S, v)
	}
	return v
}

func (x *EvalCtx) index1(n *EIndex) Val {
	b := x.eval(n.X)
	i := x.eval(n.I)
	switch kindOf(b.T) {
	case kSlice:
		et := b.T.Underlying().(*types.Slice).Elem()
		abs := i.S
		if b.Sl.Off != "0" {
			abs = ixT(b.Sl.Off, i.S)
		}
		ev := x.s.pureLoad(&Addr{Space: "elem", Ref: b.Sl.Base, Idx: abs, Elem: et, T: et})
		if ev.S != "" && !strings.Contains(ev.S, "!q") {
			x.facts = append(x.facts, x.s.provenanceTerms(b.Sl.Base, ev)...)
		}
		return ev
	case kMap:
		m := b.T.Underlying().(*types.Map)
		ks, cs := mapSorts(m)
		terms := make([]string, len(cs))
		for j, c := range cs {
			arr := x.s.pureRoot("mapval|"+typeKey(b.T.Underlying())+c.Suffix, arrSort(sInt, arrSort(ks, c.Sort)))
			terms[j] = sel(sel(arr, b.S), i.S)
		}
		v, _ := unflatten(m.Elem(), terms)
		if v.S != "" && !strings.Contains(v.S, "!q") {
			x.facts = append(x.facts, x.s.provenanceTerms(b.S, v)...)
		}
		return v
	}
	return x.fail("cannot index %s", n.X)
}

func (x *EvalCtx) mapHas(m Val, k Val) string {
	mt := m.T.Underlying().(*types.Map)
	ks, _ := mapSorts(mt)
	arr := x.s.pureRoot("mapdom|"+typeKey(m.T.Underlying()), arrSort(sInt, arrSort(ks, sBool)))
	return and(not(eq(m.S, "0")), sel(sel(arr, m.S), k.S))
}

func (x *EvalCtx) eqVals(a, b Val, n Expr) string {
	if a.T == nilT && b.T == nilT {
		return "true"
	}
	if a.T == nilT {
		a, b = b, a
	}
	if b.T == nilT {
		switch kindOf(a.T) {
		case kPtr, kMap, kFunc, kChan:
			if a.S == "" {
				return "false"
			}
			return eq(a.S, "0")
		case kSlice:
			return eq(a.Sl.Base, "0")
		case kIface:
			return eq(a.S, "nilI")
		}
		x.fail("cannot compare %s with nil", n)
		return "true"
	}
	if kindOf(a.T) == kSlice && kindOf(b.T) == kSlice {
		// header equality (spec-level)
		return and(eq(a.Sl.Base, b.Sl.Base), eq(a.Sl.Off, b.Sl.Off), eq(a.Sl.Len, b.Sl.Len), eq(a.Sl.Cap, b.Sl.Cap))
	}
	c, ok := x.s.valEq(a, b)
	if !ok {
		x.fail("cannot compare in %s", n)
		return "true"
	}
	return c
}

func (x *EvalCtx) binary(n *EBinary) Val {
	switch n.Op {
	case "&&":
		return Val{T: boolT, S: and(x.eval(n.X).S, x.eval(n.Y).S)}
	case "||":
		return Val{T: boolT, S: or(x.eval(n.X).S, x.eval(n.Y).S)}
	case "==>":
		ante := x.eval(n.X)
		if ante.S == "false" {
			// statically false (e.g. defined(local) on a path where the local does not exist): the consequent is
			// not evaluated, so it may mention names that are out of scope here
			return Val{T: boolT, S: "true"}
		}
		return Val{T: boolT, S: implies(ante.S, x.eval(n.Y).S)}
	}
	a, b := x.eval(n.X), x.eval(n.Y)
	switch n.Op {
	case "==":
		return Val{T: boolT, S: x.eqVals(a, b, n)}
	case "!=":
		return Val{T: boolT, S: not(x.eqVals(a, b, n))}
	}
	if kindOf(a.T) == kStr && n.Op == "+" {
		if a.S == "emp" {
			return b
		}
		if b.S == "emp" {
			return a
		}
		return Val{T: a.T, S: x.s.c.catCanon(a.S, b.S)}
	}
	if kindOf(a.T) == kFloat {
		if op := map[string]string{"<": "fp.lt", "<=": "fp.leq", ">": "fp.gt", ">=": "fp.geq"}[n.Op]; op != "" {
			return Val{T: boolT, S: app(op, a.S, b.S)}
		}
	}
	switch n.Op {
	case "<", "<=", ">", ">=":
		return Val{T: boolT, S: app(n.Op, a.S, b.S)}
	case "+", "-", "*":
		return Val{T: a.T, S: app(n.Op, a.S, b.S)}
	case "/":
		return Val{T: a.T, S: app("div", a.S, b.S)}
	case "%":
		return Val{T: a.T, S: app("mod", a.S, b.S)}
	}
	return x.fail("unsupported operator %s", n.Op)
}

func (x *EvalCtx) specType(name string) (types.Type, string) {
	switch name {
	case "int", "uint", "int64", "uint64", "byte", "rune":
		return intT, sInt
	case "string":
		return strT, sStr
	case "bool":
		return boolT, sBool
	case "ref":
		return intT, sInt
	}
	star := strings.HasPrefix(name, "*")
	nm := strings.TrimPrefix(name, "*")
	var scope *types.Scope
	if i := strings.Index(nm, "."); i >= 0 {
		if p := x.importedPkg(nm[:i]); p != nil {
			scope = p.Pkg.Scope()
			nm = nm[i+1:]
		}
	} else if x.pkg != nil {
		scope = x.pkg.Pkg.Scope()
	}
	if scope != nil {
		if obj := scope.Lookup(nm); obj != nil {
			t := obj.Type()
			if star {
				t = types.NewPointer(t)
			}
			if s := sortOfKind(kindOf(t)); s != "" {
				return t, s
			}
		}
	}
	return nil, ""
}

func (x *EvalCtx) quant(n *EQuant) Val {
	saved := map[string]Val{}
	had := map[string]bool{}
	var binds []string
	var bnames []string
	for i, v := range n.Vars {
		t, srt := x.specType(n.Types[i])
		if t == nil {
			return x.fail("unknown type %s in quantifier", n.Types[i])
		}
		x.bound++
		bn := fmt.Sprintf("%s!q%d", v, x.s.c.fresh+x.bound)
		x.s.c.fresh++
		if old, ok := x.vars[v]; ok {
			saved[v] = old
			had[v] = true
		}
		x.vars[v] = Val{T: t, S: bn}
		binds = append(binds, "("+bn+" "+srt+")")
		x.qvars = append(x.qvars, bn)
		bnames = append(bnames, bn)
	}
	body := x.eval(n.Body)
	x.qvars = x.qvars[:len(x.qvars)-len(n.Vars)]
	for _, v := range n.Vars {
		if had[v] {
			x.vars[v] = saved[v]
		} else {
			delete(x.vars, v)
		}
	}
	q := "exists"
	if n.Forall {
		q = "forall"
	}
	// explicit triggers: element reads indexed by the bound variable (only for single-variable quantifiers whose
	// candidate terms cover the variable)
	if len(bnames) == 1 && len(x.trig[bnames[0]]) > 0 {
		seen := map[string]bool{}
		var pats []string
		for _, t := range x.trig[bnames[0]] {
			if !seen[t] && strings.Contains(body.S, t) {
				seen[t] = true
				pats = append(pats, ":pattern ("+t+")")
			}
		}
		delete(x.trig, bnames[0])
		if len(pats) > 0 {
			return Val{T: boolT, S: fmt.Sprintf("(%s (%s) (! %s %s))", q, strings.Join(binds, " "), body.S, strings.Join(pats, " "))}
		}
	}
	return Val{T: boolT, S: fmt.Sprintf("(%s (%s) %s)", q, strings.Join(binds, " "), body.S)}
}

var strSpecFuncs = map[string]string{
	"blen": sInt, "nl": sInt, "vlen": sInt,
	"clean": sBool, "wf": sBool, "sgr": sBool, "digits": sBool, "noNL": sBool, "noCTL": sBool,
	"sgrs": sBool, "p1": sBool, "sgrch": sBool, "mxl": sInt, "fstl": sInt, "lstl": sInt, "mmin": sInt, "nel": sInt, "nsc": sInt,
}

func (x *EvalCtx) callExpr(n *ECall) Val {
	if n.Recv != nil {
		return x.fail("method calls are not supported in specs: %s", n)
	}
	switch n.Fn {
	case "old":
		if len(n.Args) != 1 {
			return x.fail("old takes one argument")
		}
		if x.old == nil {
			return x.eval(n.Args[0])
		}
		y := *x
		y.s = x.old
		y.old = nil
		if y.factSink == nil {
			y.factSink = x.s
		}
		v := y.eval(n.Args[0])
		x.err = y.err
		x.facts = y.facts
		return v
	case "len":
		v := x.eval(n.Args[0])
		switch kindOf(v.T) {
		case kSlice:
			return Val{T: intT, S: v.Sl.Len}
		case kStr:
			return Val{T: intT, S: app("blen", v.S)}
		case kMap:
			return Val{T: intT, S: x.mapLen(v)}
		}
		return x.fail("len of %s", n.Args[0])
	case "cap":
		v := x.eval(n.Args[0])
		if kindOf(v.T) == kSlice {
			return Val{T: intT, S: v.Sl.Cap}
		}
		return x.fail("cap of %s", n.Args[0])
	case "has":
		m, k := x.eval(n.Args[0]), x.eval(n.Args[1])
		if kindOf(m.T) != kMap {
			return x.fail("has: not a map: %s", n.Args[0])
		}
		return Val{T: boolT, S: x.mapHas(m, k)}
	case "fresh":
		v := x.eval(n.Args[0])
		r := v.S
		if kindOf(v.T) == kSlice {
			r = v.Sl.Base
		}
		base := x.s
		if x.old != nil {
			base = x.old
		}
		return Val{T: boolT, S: app(">=", r, base.alloc)}
	case "cat":
		a, b := x.eval(n.Args[0]), x.eval(n.Args[1])
		return Val{T: strT, S: app("cat", a.S, b.S)}
	case "errIs":
		a, b := x.eval(n.Args[0]), x.eval(n.Args[1])
		return Val{T: boolT, S: errIsTerm(a.S, b.S)}
	case "errClean":
		a := x.eval(n.Args[0])
		return Val{T: boolT, S: or(eq(a.S, "nilI"), app("errClean", app("perr", app("ipay", a.S))))}
	case "isErr":
		a := x.eval(n.Args[0])
		return Val{T: boolT, S: not(eq(a.S, "nilI"))}
	case "typeIs":
		a := x.eval(n.Args[0])
		tn, ok := n.Args[1].(*EStr)
		if !ok {
			return x.fail("typeIs(x, \"T\") expects a string literal type")
		}
		t, _ := x.specTypeAny(tn.V)
		if t == nil {
			return x.fail("typeIs: unknown type %s", tn.V)
		}
		return Val{T: boolT, S: x.s.hasType(a, t)}
	case "ptrOf":
		// ptrOf(x, "T"): payload pointer of an interface value of dynamic type *T
		a := x.eval(n.Args[0])
		tn, ok := n.Args[1].(*EStr)
		if !ok {
			return x.fail("ptrOf(x, \"T\") expects a string literal type")
		}
		t, _ := x.specTypeAny(tn.V)
		if t == nil {
			return x.fail("ptrOf: unknown type %s", tn.V)
		}
		return Val{T: t, S: app("pref", app("ipay", a.S))}
	case "strOf":
		a := x.eval(n.Args[0])
		return Val{T: strT, S: app("pstr", app("ipay", a.S))}
	case "numOf":
		a := x.eval(n.Args[0])
		return Val{T: types.Typ[types.Float64], S: app("pnum", app("ipay", a.S))}
	case "sliceOf":
		a := x.eval(n.Args[0])
		pay := app("ipay", a.S)
		st := types.Type(types.NewSlice(types.NewInterfaceType(nil, nil)))
		if len(n.Args) == 2 {
			// sliceOf(x, "[]T"): the payload of an interface value holding a []T
			if tn, ok := n.Args[1].(*EStr); ok {
				if t, _ := x.specTypeAny(tn.V); t != nil {
					st = t
				}
			}
		}
		return Val{T: st, Sl: &SliceV{app("psb", pay), app("pso", pay), app("psl", pay), app("psc", pay)}}
	case "mapOf":
		a := x.eval(n.Args[0])
		mt := types.NewMap(strT, types.NewInterfaceType(nil, nil))
		return Val{T: mt, S: app("pref", app("ipay", a.S))}
	case "fIntegral":
		a := x.eval(n.Args[0])
		return Val{T: boolT, S: app("fp.eq", a.S, app("fp.roundToIntegral", "RTZ", a.S))}
	case "fInU64":
		a := x.eval(n.Args[0])
		return Val{T: boolT, S: and(app("fp.leq", fpLit(0), a.S), app("fp.lt", a.S, fpLit(18446744073709551616.0)))}
	case "sameNumber":
		u, f := x.eval(n.Args[0]), x.eval(n.Args[1])
		return Val{T: boolT, S: eq(app("to_real", u.S), app("fp.to_real", f.S))}
	case "allNonNil", "allValid":
		xs := x.eval(n.Args[0])
		if kindOf(xs.T) != kSlice || xs.Sl == nil {
			return x.fail("%s: not a slice", n.Fn)
		}
		et := xs.T.Underlying().(*types.Slice).Elem()
		x.bound++
		k := fmt.Sprintf("k!q%d", x.s.c.fresh+x.bound)
		x.s.c.fresh++
		el := x.s.pureLoad(&Addr{Space: "elem", Ref: xs.Sl.Base, Idx: k, Elem: et, T: et})
		var body string
		switch {
		case n.Fn == "allValid" && kindOf(et) == kIface:
			body = app("validI", el.S)
		case kindOf(et) == kIface:
			body = not(eq(el.S, "nilI"))
		case kindOf(et) == kPtr:
			body = not(eq(el.S, "0"))
		default:
			return x.fail("%s: unsupported element type", n.Fn)
		}
		hi := app("+", xs.Sl.Off, xs.Sl.Len)
		return Val{T: boolT, S: fmt.Sprintf("(forall ((%s Int)) (! (=> (and (<= %s %s) (< %s %s)) %s) :pattern (%s)))", k, xs.Sl.Off, k, k, hi, body, el.S)}
	case "headerLine":
		a, b := x.eval(n.Args[0]), x.eval(n.Args[1])
		x.s.c.declare("headerLine", "(declare-fun headerLine (Str Str) Bool)")
		return Val{T: boolT, S: app("headerLine", a.S, b.S)}
	case "isMediaType":
		a := x.eval(n.Args[0])
		x.s.c.declare("isMediaType", "(declare-fun isMediaType (Str) Bool)")
		return Val{T: boolT, S: app("isMediaType", a.S)}
	case "headerValue", "statusCode", "mtEssence", "mtSuper", "mtSub":
		a := x.eval(n.Args[0])
		x.s.c.declare(n.Fn, fmt.Sprintf("(declare-fun %s (Str) Str)", n.Fn))
		return Val{T: strT, S: app(n.Fn, a.S)}
	case "isStatusLine":
		a := x.eval(n.Args[0])
		x.s.c.declare("isStatusLine", "(declare-fun isStatusLine (Str) Bool)")
		return Val{T: boolT, S: app("isStatusLine", a.S)}
	case "called", "lastresult":
		// called("pkg.Callee"): that contracted callee has been called on this path; lastresult("pkg.Callee", i): result
		// i of its latest call
		kn, ok := n.Args[0].(*EStr)
		if !ok {
			return x.fail("%s: the callee key must be a string literal", n.Fn)
		}
		if n.Fn == "called" {
			_, ok := x.s.ghost["lastres|"+kn.V]
			return Val{T: boolT, S: boolLit(ok)}
		}
		if len(n.Args) != 2 {
			return x.fail("lastresult takes a callee key and a result index")
		}
		in, ok := n.Args[1].(*EInt)
		if !ok {
			return x.fail("lastresult: the result index must be a literal")
		}
		v, ok := x.s.ghost[fmt.Sprintf("lastres|%s|%s", kn.V, in.V)]
		if !ok {
			return x.fail("lastresult: %s has not been called on this path", kn.V)
		}
		return v
	case "defined":
		// defined(name): the source-level local `name` has a value on this path (for call-site and exit clauses
		// that concern one branch of a function only)
		id, ok := n.Args[0].(*EIdent)
		if !ok {
			return x.fail("defined takes a variable name")
		}
		if _, ok := x.vars[id.Name]; ok {
			return Val{T: boolT, S: "true"}
		}
		if nb, ok := x.s.names[id.Name]; ok && x.locals {
			if _, ok := x.s.env[nb.V]; ok {
				return Val{T: boolT, S: "true"}
			}
			if _, isC := nb.V.(*ssa.Const); isC {
				return Val{T: boolT, S: "true"}
			}
		}
		return Val{T: boolT, S: "false"}
	case "repeat":
		// repeat(s, n): strings.Repeat as a function
		a, b := x.eval(n.Args[0]), x.eval(n.Args[1])
		x.s.c.declare("repeatS", "(declare-fun repeatS (Str Int) Str)")
		return Val{T: strT, S: app("repeatS", a.S, b.S)}
	case "mdhtml":
		// mdhtml(t): the HTML goldmark's Convert writes for the source t (a function of the source: assumed)
		a := x.eval(n.Args[0])
		x.s.c.declare("mdhtml", "(declare-fun mdhtml (Str) Str)")
		return Val{T: strT, S: app("mdhtml", a.S)}
	case "mkclean":
		a := x.eval(n.Args[0])
		x.s.declMk()
		x.facts = append(x.facts, implies(app("clean", a.S), app("mkclean", a.S)))
		return Val{T: boolT, S: app("mkclean", a.S)}
	case "valid":
		a := x.eval(n.Args[0])
		return Val{T: boolT, S: app("validI", a.S)}
	case "cells", "cellsText", "cellsUpto":
		// the match lists of ansi.expand (cells.go)
		xs := x.eval(n.Args[0])
		if kindOf(xs.T) != kSlice || xs.Sl == nil {
			return x.fail("%s: not a slice", n.Fn)
		}
		x.s.declCells()
		R, off, ln := xs.Sl.Base, xs.Sl.Off, xs.Sl.Len
		switch n.Fn {
		case "cells":
			return Val{T: boolT, S: or(eq(ln, "0"), and(app("isCells", R), app("<=", "0", off), app("<=", app("+", off, ln), app("cellsN", R)), x.s.cellsWholeFacts(R)))}
		case "cellsText":
			t := app("span", R, off, app("+", off, ln))
			x.facts = append(x.facts, eq(app("span", R, off, off), "emp"))
			if !strings.Contains(t, "!q") {
				x.facts = append(x.facts, x.s.spanFacts(R, off, app("+", off, ln)))
			}
			x.strFacts(t)
			return Val{T: strT, S: t}
		default:
			if len(n.Args) != 2 {
				return x.fail("cellsUpto takes a slice and a count")
			}
			i := x.eval(n.Args[1])
			t := app("span", R, off, app("+", off, i.S))
			x.facts = append(x.facts, eq(app("span", R, off, off), "emp"))
			if !strings.Contains(t, "!q") {
				x.facts = append(x.facts, x.s.spanFacts(R, off, app("+", off, i.S)))
			}
			x.strFacts(t)
			return Val{T: strT, S: t}
		}
	case "nsx":
		a := x.eval(n.Args[0])
		x.s.declOrder()
		t := app("nsx", a.S)
		if !strings.Contains(t, "!q") {
			tgt := x.factSink
			if tgt == nil {
				tgt = x.s
			}
			tgt.nsxBasics(a.S)
		}
		return Val{T: strT, S: t}
	case "catNsx":
		xs := x.eval(n.Args[0])
		if kindOf(xs.T) != kSlice || xs.Sl == nil {
			return x.fail("%s: not a slice", n.Fn)
		}
		x.s.declSums()
		x.s.declOrder()
		inner := x.s.strElems(xs.Sl.Base)
		x.facts = append(x.facts, eq(app("scat_nsx", inner, xs.Sl.Off, xs.Sl.Off), "emp"))
		return Val{T: strT, S: app("scat_nsx", inner, xs.Sl.Off, app("+", xs.Sl.Off, xs.Sl.Len))}
	case "sumVlen", "sumNsc":
		// the sum of a measure over the elements of a []string
		xs := x.eval(n.Args[0])
		if kindOf(xs.T) != kSlice || xs.Sl == nil {
			return x.fail("%s: not a slice", n.Fn)
		}
		x.s.declSums()
		f := map[string]string{"sumVlen": "ssum_vlen", "sumNsc": "ssum_nsc"}[n.Fn]
		inner := x.s.strElems(xs.Sl.Base)
		x.facts = append(x.facts, eq(app(f, inner, xs.Sl.Off, xs.Sl.Off), "0"))
		return Val{T: intT, S: app(f, inner, xs.Sl.Off, app("+", xs.Sl.Off, xs.Sl.Len))}
	case "styledBy":
		if len(n.Args) != 2 {
			return x.fail("styledBy takes a text and a style")
		}
		t, st := x.eval(n.Args[0]), x.eval(n.Args[1])
		x.s.declCells()
		r := app("styledBy", t.S, st.S)
		return Val{T: strT, S: r}
	case "wholeCells":
		// wholeCells(x): the match list is a complete expansion (starts at cell 0 and ends at the last cell)
		xs := x.eval(n.Args[0])
		if kindOf(xs.T) != kSlice || xs.Sl == nil {
			return x.fail("%s: not a slice", n.Fn)
		}
		x.s.declCells()
		return Val{T: boolT, S: or(and(eq(xs.Sl.Len, "0"), eq(xs.Sl.Off, "0")), and(eq(xs.Sl.Off, "0"), eq(xs.Sl.Len, app("cellsN", xs.Sl.Base))))}
	case "cellsOf":
		// cellsOf(x): the text the match list was expanded from
		xs := x.eval(n.Args[0])
		if kindOf(xs.T) != kSlice || xs.Sl == nil {
			return x.fail("%s: not a slice", n.Fn)
		}
		x.s.declCells()
		return Val{T: strT, S: app("cellsTxt", xs.Sl.Base)}
	case "urlStr":
		a := x.eval(n.Args[0])
		return Val{T: strT, S: app("urlStr", a.S)}
	case "implements":
		a := x.eval(n.Args[0])
		tn, ok := n.Args[1].(*EStr)
		if !ok {
			return x.fail("implements(x, \"pkg.Iface\") expects a string literal")
		}
		t, _ := x.specTypeAny(tn.V)
		if t == nil {
			return x.fail("implements: unknown interface %s", tn.V)
		}
		it, ok := t.Underlying().(*types.Interface)
		if !ok {
			return x.fail("implements: %s is not an interface", tn.V)
		}
		return Val{T: boolT, S: x.s.implementsCond(a, it)}
	case "detcall":
		// detcall("pkg.Iface.Method", recv, args...): the (deterministic) result of that method
		kn, ok := n.Args[0].(*EStr)
		if !ok {
			return x.fail("detcall: method key must be a string literal")
		}
		con := x.s.c.eng.contracts.Funcs[kn.V]
		parts := strings.Split(kn.V, ".")
		if con == nil || !con.Deterministic || len(parts) < 2 || len(parts) > 3 {
			return x.fail("detcall: %s is not a deterministic contract", kn.V)
		}
		sp := x.s.c.eng.pkgByName[parts[0]]
		var sig *types.Signature
		if fns := x.s.c.eng.fnByKey[kn.V]; len(fns) > 0 && con.Kind != "iface" {
			// a plain function or method declared deterministic: its first result as a function of its arguments
			fsig := fns[0].Signature
			var args []Val
			var as []string
			for _, a := range n.Args[1:] {
				v := x.eval(a)
				args = append(args, v)
				as = append(as, flatten(v)...)
			}
			if fsig.Results().Len() < 1 {
				return x.fail("detcall: %s has no result", kn.V)
			}
			rt := fsig.Results().At(0).Type()
			cs := comps(rt)
			terms := make([]string, len(cs))
			for j, c := range cs {
				terms[j] = app(x.s.c.eng.detFn(kn.V, 0, j, args, c.Sort), as...)
			}
			v, _ := unflatten(rt, terms)
			return v
		}
		if len(parts) != 3 {
			return x.fail("detcall: cannot resolve %s", kn.V)
		}
		if sp != nil {
			if tm, ok := sp.Members[parts[1]].(*ssa.Type); ok {
				if it, ok := tm.Type().Underlying().(*types.Interface); ok {
					for i := 0; i < it.NumMethods(); i++ {
						if it.Method(i).Name() == parts[2] {
							sig = it.Method(i).Type().(*types.Signature)
						}
					}
				}
			}
		}
		if sig == nil || sig.Results().Len() != 1 {
			return x.fail("detcall: cannot resolve %s", kn.V)
		}
		var args []Val
		var as []string
		for _, a := range n.Args[1:] {
			v := x.eval(a)
			args = append(args, v)
			as = append(as, flatten(v)...)
		}
		rt := sig.Results().At(0).Type()
		cs := comps(rt)
		terms := make([]string, len(cs))
		for j, c := range cs {
			terms[j] = app(x.s.c.eng.detFn(kn.V, 0, j, args, c.Sort), as...)
		}
		v, _ := unflatten(rt, terms)
		return v
	case "joinHostPort":
		a, b := x.eval(n.Args[0]), x.eval(n.Args[1])
		x.s.c.declare("joinHostPort", "(declare-fun joinHostPort (Str Str) Str)")
		return Val{T: strT, S: app("joinHostPort", a.S, b.S)}
	case "urlHostname", "urlPort":
		a := x.eval(n.Args[0])
		fn := "urlHostname"
		if n.Fn == "urlPort" {
			fn = "urlPort"
		}
		x.s.c.declare(fn, fmt.Sprintf("(declare-fun %s (Str) Str)", fn))
		return Val{T: strT, S: app(fn, a.S)}
	case "urlRequestURI":
		a := x.eval(n.Args[0])
		x.s.c.declare("urlRequestURI", "(declare-fun urlRequestURI (Int) Str)")
		return Val{T: strT, S: app("urlRequestURI", a.S)}
	case "urlResolve":
		a, b := x.eval(n.Args[0]), x.eval(n.Args[1])
		x.s.c.declare("urlResolve", "(declare-fun urlResolve (Int Int) Int)")
		return Val{T: a.T, S: app("urlResolve", a.S, b.S)}
	case "textOfBytes":
		a := x.eval(n.Args[0])
		if a.Sl == nil {
			return x.fail("textOfBytes: not a slice")
		}
		x.s.c.declare("textOfBytes", "(declare-fun textOfBytes (Int Int Int) Str)")
		return Val{T: strT, S: app("textOfBytes", a.Sl.Base, a.Sl.Off, a.Sl.Len)}
	case "allocated":
		a := x.eval(n.Args[0])
		pt := derefType(a.T)
		if pt == nil || !x.s.c.eng.isTracked(pt) {
			return x.fail("allocated(p): p must point to a tracked type")
		}
		return Val{T: boolT, S: sel(x.s.pureRoot("allocset|"+typeKey(pt), arrSort(sInt, sBool)), a.S)}
	case "chr":
		a := x.eval(n.Args[0])
		x.s.c.declare("chrOf", "(declare-fun chrOf (Int) Str)")
		return Val{T: strT, S: app("chrOf", a.S)}
	case "instantOf":
		a, b := x.eval(n.Args[0]), x.eval(n.Args[1])
		x.s.c.declare("instantOf", "(declare-fun instantOf (Int Int) Int)")
		return Val{T: intT, S: app("instantOf", a.S, b.S)}
	case "itoa":
		a := x.eval(n.Args[0])
		x.s.c.declare("itoa", "(declare-fun itoa (Int) Str)")
		return Val{T: strT, S: app("itoa", a.S)}
	case "readerText":
		a := x.eval(n.Args[0])
		x.s.c.declare("readerOf", "(declare-fun readerOf (Int) Str)")
		return Val{T: strT, S: app("readerOf", app("pref", app("ipay", a.S)))}
	case "min":
		a, b := x.eval(n.Args[0]), x.eval(n.Args[1])
		return Val{T: a.T, S: ite(app("<=", a.S, b.S), a.S, b.S)}
	case "max":
		a, b := x.eval(n.Args[0]), x.eval(n.Args[1])
		return Val{T: a.T, S: ite(app(">=", a.S, b.S), a.S, b.S)}
	case "held":
		return Val{T: boolT, S: x.s.heldTerm()}
	}
	if srt, ok := strSpecFuncs[n.Fn]; ok {
		v := x.eval(n.Args[0])
		t := types.Type(boolT)
		if srt == sInt {
			t = intT
		}
		return Val{T: t, S: app(n.Fn, v.S)}
	}
	if uf, ok := x.s.c.eng.ufuncs[n.Fn]; ok {
		var as []string
		for _, a := range n.Args {
			as = append(as, flatten(x.eval(a))...)
		}
		return Val{T: uf.T, S: app(uf.Name, as...)}
	}
	if p, ok := x.s.c.eng.contracts.Preds[n.Fn]; ok {
		if len(p.Params) != len(n.Args) {
			return x.fail("pred %s expects %d arguments", p.Name, len(p.Params))
		}
		y := *x
		y.vars = map[string]Val{}
		for i, a := range n.Args {
			y.vars[p.Params[i]] = x.eval(a)
		}
		// preds are evaluated in their own package scope
		if pp := x.s.c.eng.pkgByName[p.Pkg]; pp != nil {
			y.pkg = pp
		}
		y.locals = false
		v := y.eval(p.Body)
		x.err = y.err
		x.facts = y.facts
		return v
	}
	return x.fail("unknown spec function %s", n.Fn)
}

func (x *EvalCtx) specTypeAny(name string) (types.Type, string) {
	star := strings.HasPrefix(name, "*")
	nm := strings.TrimPrefix(name, "*")
	var scope *types.Scope
	if i := strings.Index(nm, "."); i >= 0 {
		pn := nm[:i]
		if p := x.s.c.eng.pkgByName[pn]; p != nil {
			scope = p.Pkg.Scope()
			nm = nm[i+1:]
		}
	} else if x.pkg != nil {
		scope = x.pkg.Pkg.Scope()
	}
	if strings.HasPrefix(name, "[]") && name != "[]any" {
		if et, _ := x.specTypeAny(name[2:]); et != nil {
			return types.NewSlice(et), ""
		}
		return nil, ""
	}
	switch name {
	case "[]any":
		return types.NewSlice(types.NewInterfaceType(nil, nil)), ""
	case "map[string]any":
		return types.NewMap(strT, types.NewInterfaceType(nil, nil)), sInt
	}
	switch nm {
	case "string":
		return strT, sStr
	case "float64":
		return types.Typ[types.Float64], sF64
	case "bool":
		return boolT, sBool
	}
	if scope != nil {
		if obj := scope.Lookup(nm); obj != nil {
			t := obj.Type()
			if star {
				t = types.NewPointer(t)
			}
			return t, sortOfKind(kindOf(t))
		}
	}
	return nil, ""
}

func (x *EvalCtx) mapLen(m Val) string {
	mt := m.T.Underlying().(*types.Map)
	ks, _ := mapSorts(mt)
	fn := "maplen_" + ks
	x.s.c.declare(fn, fmt.Sprintf("(declare-fun %s (%s) Int)", fn, arrSort(ks, sBool)))
	arr := x.s.pureRoot("mapdom|"+typeKey(m.T.Underlying()), arrSort(sInt, arrSort(ks, sBool)))
	return app(fn, sel(arr, m.S))
}

// errIsTerm is errors.Is(e, target) on interface-valued error terms.
func errIsTerm(e, target string) string {
	return and(not(eq(e, "nilI")), or(eq(e, target), app("errIs", app("perr", app("ipay", e)), app("perr", app("ipay", target)))))
}
