package main

import (
	"fmt"
	"go/types"
	"strings"
	"unicode/utf8"

	"golang.org/x/tools/go/ssa"
)

// ---------------------------------------------------------------------------------------------------------
// The cell language (DESIGN §3) at the level of concatenation terms.
//
//   L = ( c | SGR+ c RESET | "\n" )*        SGR = ESC "[" p "m" with sgr(p),  RESET = ESC "[0m"
//
// wf is closed under concatenation, but pieces such as "\x1b[" are not in L on their own, so a concatenation of
// literals and opaque strings is run through the recogniser of L with every opaque part classified by a
// predicate (wf / sgrs / p1 / sgr).  Every accepting run yields one implication
//      (class conditions of the opaque parts)  ==>  wf(term) && vlen(term) == ...
// These implications are consequences of the definition of L and of the predicates; nothing about the
// program is assumed.
// ---------------------------------------------------------------------------------------------------------

const (
	stZ  = iota // at a cell boundary
	stS         // one or more SGR sequences read, a visible rune must follow
	stR         // a styled rune read, RESET must follow
	stP0        // "ESC [" read, no parameter text yet
	stPD        // an opaque parameter string read, "m" must follow
)

type cellRun struct {
	st        int
	cc        []cellCond
	vis       []string // opaque summands of the visible length
	nsp       []string // opaque summands of the non-space count
	n         int      // visible cells contributed by literals
	ns        int      // non-space cells contributed by literals
	onlySgr   bool
	unknownNs bool
}

// scanLit advances a run over literal text; ok=false when the text cannot continue a word of L from that state.
func scanLit(r cellRun, text string) (cellRun, bool) {
	for len(text) > 0 {
		switch r.st {
		case stR:
			if !strings.HasPrefix(text, "\x1b[0m") {
				return r, false
			}
			text = text[4:]
			r.st = stZ
			continue
		case stPD:
			if text[0] != 'm' {
				return r, false
			}
			text = text[1:]
			r.st = stS
			continue
		case stP0:
			i := strings.IndexByte(text, 'm')
			if i < 0 || !refSgr(text[:i]) {
				return r, false
			}
			text = text[i+1:]
			r.st = stS
			continue
		}
		// stZ or stS
		if text[0] == '\n' {
			if r.st != stZ {
				return r, false
			}
			r.onlySgr = false
			text = text[1:]
			continue
		}
		if strings.HasPrefix(text, "\x1b[") {
			rest := text[2:]
			if rest == "" {
				r.st = stP0
				return r, true
			}
			i := strings.IndexByte(rest, 'm')
			if i < 0 || !refSgr(rest[:i]) {
				return r, false
			}
			text = rest[i+1:]
			r.st = stS
			continue
		}
		c, w := utf8.DecodeRuneInString(text)
		if refIsControl(c) || (c == utf8.RuneError && w == 1) {
			return r, false
		}
		text = text[w:]
		r.n++
		if !refIsSpace(c) {
			r.ns++
		}
		r.onlySgr = false
		if r.st == stS {
			r.st = stR
		}
	}
	return r, true
}

// cellCond: one class condition on an opaque part.
type cellCond struct {
	pred   string // wf | sgrs | p1 | sgr
	term   string
	nonEmp bool // additionally: term != ""
}

// cellRuns runs the recogniser of L over a concatenation; every returned run has consumed all parts.
func cellRuns(parts []strAtom) []cellRun {
	runs := []cellRun{{st: stZ, onlySgr: true}}
	for _, p := range parts {
		var next []cellRun
		for _, run := range runs {
			if p.lit {
				if nr, ok := scanLit(run, p.text); ok {
					next = append(next, nr)
				}
				continue
			}
			x := p.term
			ext := func(st int, cond cellCond, vis, nsp string, only bool) {
				nr := run
				nr.st = st
				nr.cc = append(append([]cellCond(nil), run.cc...), cond)
				if vis != "" {
					nr.vis = append(append([]string(nil), run.vis...), vis)
					nr.nsp = append(append([]string(nil), run.nsp...), nsp)
				}
				nr.onlySgr = run.onlySgr && only
				next = append(next, nr)
			}
			switch run.st {
			case stZ:
				ext(stZ, cellCond{"wf", x, false}, "vlen:"+x, "nsc:"+x, false)
				ext(stS, cellCond{"sgrs", x, true}, "", "", true)
			case stS:
				ext(stS, cellCond{"sgrs", x, false}, "", "", true)
				ext(stR, cellCond{"p1", x, false}, "one", "nsc:"+x, false)
			case stP0:
				ext(stPD, cellCond{"sgr", x, false}, "", "", true)
			}
		}
		runs = next
		if len(runs) > 16 {
			runs = runs[:16]
		}
	}
	return runs
}

func (s *State) cellAutomatonFacts(r string) {
	parts := s.c.catParts[r]
	if len(parts) < 2 {
		return
	}
	hasEsc := false
	for _, p := range parts {
		if p.lit && strings.Contains(p.text, "\x1b") {
			hasEsc = true
		}
	}
	if !hasEsc {
		return // the binary homomorphism facts already say everything
	}
	for _, run := range cellRuns(parts) {
		var conds []string
		for _, c := range run.cc {
			t := app(c.pred, c.term)
			if c.nonEmp {
				t = and(t, not(eq(c.term, "emp")))
			}
			conds = append(conds, t)
		}
		sum := func(ts []string, k int) string {
			t := fmt.Sprint(k)
			for _, v := range ts {
				switch {
				case v == "one":
					t = addT(t, "1")
				case strings.HasPrefix(v, "vlen:"):
					t = addT(t, app("vlen", v[5:]))
				case strings.HasPrefix(v, "nsc:"):
					t = addT(t, app("nsc", v[4:]))
				}
			}
			return t
		}
		if run.st == stZ {
			s.assume(implies(and(conds...), and(app("wf", r), eq(app("vlen", r), sum(run.vis, run.n)), eq(app("nsc", r), sum(run.nsp, run.ns)))))
		}
		if run.onlySgr && (run.st == stS || run.st == stZ) {
			s.assume(implies(and(conds...), app("sgrs", r)))
		}
	}
}

// ---------------------------------------------------------------------------------------------------------
// The cell model of ansi.expand: (*regexp.Regexp).FindAllStringSubmatch with the pattern below.
//
// Assumed contract of the regular expression (checked against the real regexp package by the bounded conformance
// test tools/expand_conformance, never counted as proved): the matches tile the text; every match has three
// strings full/prefix/letter with letter exactly one rune (or one invalid byte) and full = prefix letter
// [RESET]; for a text in the cell language each match is exactly one cell.
// ---------------------------------------------------------------------------------------------------------

const expandPattern = `(?s)((?:\x1b\[.*?m)*)(.)(?:\x1b\[0m)?`

func (s *State) declCells() {
	c := s.c
	c.declare("isCells", "(declare-fun isCells (Int) Bool)")
	c.declare("cellsN", "(declare-fun cellsN (Int) Int)")
	c.declare("cellsTxt", "(declare-fun cellsTxt (Int) Str)")
	c.declare("innerRef", "(declare-fun innerRef (Int Int) Int)")
	c.declare("isCellRef", "(declare-fun isCellRef (Int) Bool)\n(assert (forall ((r Int)) (! (=> (isCellRef r) (< r 0)) :pattern ((isCellRef r)))))")
	c.declare("c0", "(declare-fun c0 (Int) Str)")
	c.declare("c1", "(declare-fun c1 (Int) Str)")
	c.declare("c2", "(declare-fun c2 (Int) Str)")
	c.declare("cellReset", "(declare-fun cellReset (Int) Bool)")
	c.declare("span", "(declare-fun span (Int Int Int) Str)")
	c.declare("styledBy", "(declare-fun styledBy (Str Str) Str)\n(assert (forall ((s Str)) (! (= (styledBy emp s) emp) :pattern ((styledBy emp s)))))")
	c.declare("oneRune", "(declare-fun oneRune (Str) Bool)")
	c.declare("runeOf", "(declare-fun runeOf (Str) Int)")
}

// cellsWhole: what is known of an expand result as a whole.
func (s *State) cellsWholeFacts(R string) string {
	n := app("cellsN", R)
	t := app("cellsTxt", R)
	return and(app("<=", "0", n), app("<=", n, app("blen", t)), eq(eq(n, "0"), eq(t, "emp")),
		eq(app("span", R, "0", n), t), implies(app("wf", t), eq(app("+", app("vlen", t), app("nl", t)), n)))
}

func (s *State) libExpand(site ssa.Instruction, text Val) Val {
	s.declCells()
	s.used("regexp " + fmt.Sprintf("%q", expandPattern) + " (ansi.expand): FindAllStringSubmatch tiles the text; each match is (full, prefix, letter) with letter one rune and full = prefix letter [ESC[0m]; for cell-language text each match is one cell")
	s.strBasics(text.S)
	B := s.newRef()
	n := s.c.freshConst("ncells", sInt)
	s.assume(and(app("isCells", B), eq(app("cellsN", B), n), eq(app("cellsTxt", B), text.S)))
	s.assume(s.cellsWholeFacts(B))
	T := site.(ssa.CallInstruction).Common().Signature().Results().At(0).Type()
	// nil when there is no match
	base := s.define("cellsb", sInt, ite(eq(n, "0"), "0", B))
	return Val{T: T, Sl: &SliceV{base, "0", n, n}}
}

// cellsOuterIndex is called for IndexAddr on a [][]string in cells mode: the element at absolute index abs of the
// array R, reached through a slice that starts at off.
func (s *State) cellsOuterIndex(R, off, abs string, et types.Type) {
	s.declCells()
	h := func(suffix string) string {
		key := elemKey(et, nil, suffix)
		return sel(sel(s.heapGet(key, arrSort(sInt, arrSort(sInt, sInt))), R), abs)
	}
	b := s.define("cellb", sInt, h(".b"))
	guard := and(app("isCells", R), app("<=", "0", abs), app("<", abs, app("cellsN", R)))
	facts := []string{eq(b, app("innerRef", R, abs)), eq(h(".o"), "0"), eq(h(".l"), "3"), eq(h(".c"), "3"), app("isCellRef", b), app("<", b, "0"), s.cellsWholeFacts(R)}
	facts = append(facts, s.cellFacts(b, app("cellsTxt", R))...)
	s.assume(implies(guard, and(facts...)))
	// spans: the text of the cells [a, abs+1) is the text of [a, abs) followed by this cell
	starts := []string{"0"}
	if off != "0" {
		starts = append(starts, off)
	}
	for _, a := range starts {
		prev := s.define("spanp", sStr, app("span", R, a, abs))
		next := s.define("spann", sStr, app("span", R, a, app("+", abs, "1")))
		s.assume(eq(app("span", R, a, a), "emp"))
		s.assume(s.spanFacts(R, a, abs))
		s.assume(s.spanFacts(R, a, app("+", abs, "1")))
		s.assume(implies(guard, eq(next, app("cat", prev, app("c0", b)))))
		{
			sv := fmt.Sprintf("s!%d", s.c.fresh)
			s.c.fresh++
			s.assume(implies(and(guard, app("wf", app("cellsTxt", R))), fmt.Sprintf("(forall ((%s Str)) (! (= (styledBy %s %s) (cat (styledBy %s %s) (styledBy (c0 %s) %s))) :pattern ((styledBy %s %s))))", sv, next, sv, prev, sv, b, sv, next, sv)))
		}
		// homomorphism facts for that split
		s.catFactsGuarded(guard, next, prev, app("c0", b))
	}
}

// spanFacts: what is known of the text of the cells [a, b) of the expansion R (a concatenation of whole cells).
func (s *State) spanFacts(R, a, b string) string {
	T := app("cellsTxt", R)
	sp := app("span", R, a, b)
	guard := and(app("isCells", R), app("<=", "0", a), app("<=", a, b), app("<=", b, app("cellsN", R)))
	return implies(guard, and(
		implies(app("noNL", T), app("noNL", sp)),
		app("<=", app("nl", sp), app("nl", T)),
		app("<=", app("blen", sp), app("blen", T)),
		implies(app("wf", T), and(app("wf", sp), app("<=", app("vlen", sp), app("vlen", T)), app("<=", app("nsc", sp), app("nsc", T)),
			eq(app("+", app("vlen", sp), app("nl", sp)), app("-", b, a))))))
}

// cellsSliceFacts: x[lo:hi] of a match list splits its text into three spans.
func (s *State) cellsSliceFacts(x, r Val) {
	s.declCells()
	R := x.Sl.Base
	a0 := x.Sl.Off
	a1 := r.Sl.Off
	a2 := app("+", r.Sl.Off, r.Sl.Len)
	a3 := app("+", x.Sl.Off, x.Sl.Len)
	guard := and(app("isCells", R), app("<=", "0", a0), app("<=", a3, app("cellsN", R)))
	whole := s.define("spanw", sStr, app("span", R, a0, a3))
	pre := s.define("spanpre", sStr, app("span", R, a0, a1))
	mid := s.define("spanmid", sStr, app("span", R, a1, a2))
	post := s.define("spanpost", sStr, app("span", R, a2, a3))
	rest := s.define("spanrest", sStr, app("span", R, a1, a3))
	s.assume(implies(guard, and(eq(whole, app("cat", pre, rest)), eq(rest, app("cat", mid, post)))))
	s.catFactsGuarded(guard, whole, pre, rest)
	s.catFactsGuarded(guard, rest, mid, post)
	for _, p := range [][2]string{{a0, a3}, {a0, a1}, {a1, a2}, {a2, a3}, {a1, a3}} {
		s.assume(s.spanFacts(R, p[0], p[1]))
	}
	s.assume(and(eq(app("span", R, a0, a0), "emp"), eq(app("span", R, a1, a1), "emp"), eq(app("span", R, a2, a2), "emp"), eq(app("span", R, a3, a3), "emp")))
}

// catFactsGuarded: catFacts under a guard (the equality next = cat(prev, cell) holds only for indices in range).
func (s *State) catFactsGuarded(guard, r, a, b string) {
	for _, f := range []string{"blen", "nl"} {
		s.assume(implies(guard, eq(app(f, r), app("+", app(f, a), app(f, b)))))
	}
	for _, f := range []string{"clean", "noNL", "noCTL"} {
		s.assume(implies(guard, eq(app(f, r), and(app(f, a), app(f, b)))))
	}
	bothWf := and(guard, app("wf", a), app("wf", b))
	s.assume(implies(bothWf, and(app("wf", r), eq(app("vlen", r), app("+", app("vlen", a), app("vlen", b))), eq(app("nsc", r), app("+", app("nsc", a), app("nsc", b))))))
	s.strBasics(a)
	s.strBasics(b)
	s.strBasics(r)
	if s.c.strOrder {
		s.declOrder()
		s.assume(implies(bothWf, eq(app("nsx", r), app("cat", app("nsx", a), app("nsx", b)))))
		s.nsxBasics(a)
		s.nsxBasics(b)
		s.nsxBasics(r)
	}
	if s.c.useLines {
		s.assume(implies(bothWf, and(
			eq(app("fstl", r), ite(eq(app("nl", a), "0"), app("+", app("vlen", a), app("fstl", b)), app("fstl", a))),
			eq(app("lstl", r), ite(eq(app("nl", b), "0"), app("+", app("lstl", a), app("vlen", b)), app("lstl", b))),
			eq(app("mxl", r), app("max2", app("max2", app("mxl", a), app("mxl", b)), app("+", app("lstl", a), app("fstl", b)))),
			eq(app("mmin", r), ite(eq(app("nl", a), "0"), app("mmin", b), ite(eq(app("nl", b), "0"), app("mmin", a),
				app("min2", app("min2", app("mmin", a), app("mmin", b)), app("+", app("lstl", a), app("fstl", b)))))),
			// empty lines: the last line of a and the first line of b merge into one
			eq(app("nel", r), app("+", app("-", app("-", app("+", app("nel", a), app("nel", b)), ite(eq(app("lstl", a), "0"), "1", "0")), ite(eq(app("fstl", b), "0"), "1", "0")),
				ite(eq(app("+", app("lstl", a), app("fstl", b)), "0"), "1", "0"))))))
	}
}

// cellFacts: the assumed shape of one match b of an expansion of text T.
func (s *State) cellFacts(b, T string) []string {
	c0, c1, c2, hr := app("c0", b), app("c1", b), app("c2", b), app("cellReset", b)
	NL := s.c.lit("\n")
	s.strBasics(c0)
	s.strBasics(c1)
	s.strBasics(c2)
	fs := []string{
		app("<=", "1", app("blen", c2)), app("<=", app("blen", c2), "4"), app("oneRune", c2),
		eq(eq(c2, NL), eq(app("nl", c2), "1")), app("<=", app("nl", c2), "1"),
		implies(eq(c2, NL), eq(app("runeOf", c2), "10")),
		eq(app("blen", c0), app("+", app("+", app("blen", c1), app("blen", c2)), ite(hr, "4", "0"))),
		eq(app("nl", c0), app("+", app("nl", c1), app("nl", c2))),
		implies(app("wf", T), and(
			app("wf", c0), app("sgrs", c1),
			implies(eq(c2, NL), and(eq(c1, "emp"), not(hr), eq(c0, NL))),
			implies(not(eq(c2, NL)), and(app("p1", c2), eq(app("vlen", c0), "1"), eq(app("nl", c0), "0"), eq(hr, not(eq(c1, "emp"))),
				eq(app("nsc", c0), app("nsc", c2)), eq(app("nsc", c2), ite(app("isSpace", app("runeOf", c2)), "0", "1")),
				implies(eq(c1, "emp"), eq(c0, c2)))))),
	}
	s.declIsSpace()
	if s.c.strOrder {
		s.declOrder()
		fs = append(fs, implies(app("wf", T), eq(app("nsx", c0), ite(eq(app("nsc", c0), "1"), c0, "emp"))))
	}
	// styledBy(x, st): the specification of ansi.Apply -- x with the attribute st added to every visible cell and
	// nothing else changed: a homomorphism on cell-language strings, defined cell by cell
	sv := fmt.Sprintf("s!%d", s.c.fresh)
	s.c.fresh++
	piece := app("cat", s.c.lit("\x1b["), app("cat", sv, app("cat", s.c.lit("m"), app("cat", c1, app("cat", c2, s.c.lit("\x1b[0m"))))))
	fs = append(fs, implies(app("wf", T), fmt.Sprintf("(forall ((%s Str)) (! (= (styledBy %s %s) %s) :pattern ((styledBy %s %s))))", sv, c0, sv, ite(eq(c2, NL), NL, piece), c0, sv)))
	return fs
}

func (s *State) declIsSpace() {
	s.c.declare("isSpace", "(define-fun isSpace ((r Int)) Bool (or (and (<= 9 r) (<= r 13)) (= r 32) (= r 133) (= r 160) (= r 5760) (and (<= 8192 r) (<= r 8202)) (= r 8232) (= r 8233) (= r 8239) (= r 8287) (= r 12288)))")
}

// cellsInnerIndex is called for IndexAddr on a []string in cells mode.
func (s *State) cellsInnerIndex(R, abs string) {
	s.declCells()
	key := elemKey(strT, nil, "")
	t := sel(sel(s.heapGet(key, arrSort(sInt, arrSort(sInt, sStr))), R), abs)
	var fs []string
	for j, f := range []string{"c0", "c1", "c2"} {
		if n, ok := litInt(abs); ok {
			if int(n) == j {
				fs = append(fs, eq(t, app(f, R)))
			}
			continue
		}
		fs = append(fs, implies(eq(abs, fmt.Sprint(j)), eq(t, app(f, R))))
	}
	if len(fs) > 0 {
		s.assume(implies(app("isCellRef", R), and(fs...)))
	}
}

// cellsStoreCheck: in cells mode nothing may be stored into the arrays of a match list (their contents are tied
// to uninterpreted functions of the reference).
func (s *State) cellsStoreCheck(site ssa.Instruction, ref string, et types.Type) {
	if !s.c.cellsMode {
		return
	}
	s.declCells()
	var goal string
	switch {
	case kindOf(et) == kStr:
		goal = not(app("isCellRef", ref))
	case kindOf(et) == kSlice && kindOf(et.Underlying().(*types.Slice).Elem()) == kStr:
		goal = not(app("isCells", ref))
	default:
		return
	}
	s.oblige("cells-immutable", site, s.c.ordinal(site, "cells-immutable"), goal, "a store into the match list of ansi.expand (the cell model treats it as immutable)", false)
}
