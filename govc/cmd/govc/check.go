package main

import (
	"context"
	"encoding/json"
	"flag"
	"fmt"
	"os"
	"path/filepath"
	"regexp"
	"sort"
	"strconv"
	"strings"
	"time"
)

// PropSpec is the per-property configuration in /verif/specs/props.json.
type PropSpec struct {
	Funcs       []string `json:"funcs"`        // function keys (trailing * = prefix) verified for this property
	Kinds       []string `json:"kinds"`        // if non-empty: only obligations of these kinds count (besides contract-level ones)
	OnlyNames   []string `json:"only"`         // regexps: restrict to matching obligation names
	Exclude     []string `json:"exclude"`      // regexps: obligation names that belong to other properties
	Trusted     []string `json:"trusted_base"` // property-specific trusted base entries
	Assumptions []string `json:"assumptions"`
	Undecided   []string `json:"clauses_not_decided"`
	Bounded     []string `json:"bounded"`
	Conformance []string `json:"conformance"` // bounded conformance runs of assumed contracts: conformance/<name>.go.txt, "<name>:<pkgdir>:<TestName>"
	ClosedWorld []CWRule `json:"closed_world"`
}

// CWRule: a whole-module scan of the SSA call graph: calls into the listed packages (or of the listed
// functions) may occur only inside the allowed functions.
type CWRule struct {
	Kind       string   `json:"kind"` // "" (calls) | "fanout" | "nomapupdate"
	Name       string   `json:"name"`
	ForbidPkgs []string `json:"forbid_pkgs"`
	ForbidFns  []string `json:"forbid_fns"`
	Allow      []string `json:"allow"`
	Desc       string   `json:"desc"`
}

type KnownFinding struct {
	Kind       string // known | fixed
	Property   string
	Obligation string
	What       string
}

func loadKnown(path string) []KnownFinding {
	data, err := os.ReadFile(path)
	if err != nil {
		return nil
	}
	var out []KnownFinding
	for _, line := range strings.Split(string(data), "\n") {
		line = strings.TrimSpace(line)
		if line == "" || strings.HasPrefix(line, "#") {
			continue
		}
		kf := KnownFinding{}
		switch {
		case strings.HasPrefix(line, "known:"):
			kf.Kind = "known"
			line = strings.TrimSpace(strings.TrimPrefix(line, "known:"))
		case strings.HasPrefix(line, "fixed:"):
			kf.Kind = "fixed"
			line = strings.TrimSpace(strings.TrimPrefix(line, "fixed:"))
		default:
			continue
		}
		for _, f := range strings.Fields(line) {
			if strings.HasPrefix(f, "property=") {
				kf.Property = strings.TrimPrefix(f, "property=")
			}
			if strings.HasPrefix(f, "obligation=") {
				kf.Obligation = strings.TrimPrefix(f, "obligation=")
			}
		}
		if i := strings.Index(line, "what="); i >= 0 {
			kf.What = line[i+5:]
		}
		out = append(out, kf)
	}
	return out
}

type oblSummary struct {
	Name      string
	Kind      string
	Func      string
	Pos       string
	Desc      string
	Contract  bool
	Instances int
	Status    string // discharged | refuted | undecided | error
	Solver    string
	Millis    int64
	Model     string
	Detail    string
	Script    string
	Candidate string // a model of the obligation's negation found after dropping the quantified facts (to be replayed)
}

func verifDir() string {
	if d := os.Getenv("VERIF_DIR"); d != "" {
		return d
	}
	return "/verif"
}

func matchKey(pat, k string) bool {
	if strings.HasSuffix(pat, "*") {
		return strings.HasPrefix(k, strings.TrimSuffix(pat, "*"))
	}
	return pat == k
}

func cmdCheck(args []string) {
	fs := flag.NewFlagSet("check", flag.ExitOnError)
	repo := fs.String("repo", "/repo", "repository root")
	tier := fs.String("tier", "", "quick|thorough")
	replay := fs.String("replay", "", "replay file to re-run")
	writeLedger := fs.Bool("write-ledger", false, "(maintenance) rewrite the ledger entry of this property from this run")
	verbose := fs.Bool("v", false, "verbose")
	var pid string
	if len(args) > 0 && !strings.HasPrefix(args[0], "-") {
		pid = args[0]
		args = args[1:]
	}
	fs.Parse(args)
	if pid == "" && fs.NArg() > 0 {
		pid = fs.Arg(0)
	}
	if *tier == "" {
		*tier = os.Getenv("VERIF_TIER")
	}
	if *tier == "" {
		*tier = "quick"
	}
	seed := 0
	if s := os.Getenv("VERIF_SEED"); s != "" {
		seed, _ = strconv.Atoi(s)
	}
	vd := verifDir()
	if *replay != "" {
		os.Exit(runReplayFile(*replay, *repo))
	}
	t0 := time.Now()
	var props map[string]*PropSpec
	data, err := os.ReadFile(filepath.Join(vd, "specs", "props.json"))
	if err != nil {
		fmt.Fprintln(os.Stderr, "props.json:", err)
		os.Exit(2)
	}
	if err := json.Unmarshal(data, &props); err != nil {
		fmt.Fprintln(os.Stderr, "props.json:", err)
		os.Exit(2)
	}
	ps, ok := props[pid]
	if !ok {
		fmt.Fprintln(os.Stderr, "no such property in props.json:", pid)
		os.Exit(2)
	}
	// obligations that belong to one property only (listed under "_owned": pattern -> owner) are not counted elsewhere
	if owned, ok := props["_owned"]; ok {
		for _, ent := range owned.Exclude {
			parts := strings.SplitN(ent, " => ", 2)
			if len(parts) == 2 && parts[1] != pid {
				ps.Exclude = append(ps.Exclude, parts[0])
			}
		}
	}
	eng, err := loadEngine(*repo)
	if err != nil {
		// the tree does not load: nothing can be decided; report as a violation of every contract-level obligation
		fmt.Println("LOAD-ERROR:", err)
	}
	loadS := time.Since(t0).Seconds()
	scratch, _ := os.MkdirTemp("", "govc-"+pid+"-")
	defer os.RemoveAll(scratch)

	var ctxs []*FnCtx
	var funcsUnder []string
	var inlinedHelpers []string
	if eng != nil && eng.prog != nil {
		var keys []string
		for k := range eng.fnByKey {
			for _, pat := range ps.Funcs {
				if matchKey(pat, k) {
					if strings.HasSuffix(k, ".init") && pat != k {
						continue
					}
					keys = append(keys, k)
					break
				}
			}
		}
		sort.Strings(keys)
		inlinedOnly := eng.inlinedOnlyHelpers(keys)
		for _, k := range keys {
			con := eng.contracts.Funcs[k]
			if con != nil && (con.Trusted != "" || con.Inline) {
				continue
			}
			if inlinedOnly[k] {
				inlinedHelpers = append(inlinedHelpers, k)
				continue
			}
			for _, fn := range eng.fnByKey[k] {
				if fn.TypeParams().Len() > 0 && len(fn.TypeArgs()) == 0 {
					continue // generic template; its instances are verified
				}
				if fn.Synthetic != "" && !strings.HasPrefix(fn.Synthetic, "instance of") && fn.Synthetic != "package initializer" {
					continue // wrappers, bound-method thunks
				}
				if fn.Parent() != nil && con == nil && !eng.spawnedUnjoined(fn) {
					continue // closures are verified in the context that calls them
				}
				c := eng.verifyFunc(fn, con)
				ctxs = append(ctxs, c)
				funcsUnder = append(funcsUnder, c.name)
			}
		}
	}
	timeout := 15000
	thorough := *tier == "thorough"
	if thorough {
		timeout = 60000
	}
	var all []*Obligation
	assumed := map[string]bool{}
	unsup := map[string]bool{}
	for _, c := range ctxs {
		for _, o := range c.obls {
			if keepObligation(ps, o) {
				all = append(all, o)
			}
		}
		for a := range c.assumed {
			assumed[a] = true
		}
		for u := range c.unsup {
			unsup[c.name+": "+u] = true
		}
	}
	genS := time.Since(t0).Seconds() - loadS
	tSolve := time.Now()
	dischargeAll(all, scratch, timeout, 14, thorough)
	solveS := time.Since(tSolve).Seconds()
	if os.Getenv("GOVC_SLOW") != "" {
		for _, o := range all {
			if o.Millis > 1200 && o.Expect == "unsat" {
				fmt.Fprintf(os.Stderr, "slow: %6dms %-8s %s (%s)\n", o.Millis, o.Status, o.Name, o.Solver)
			}
		}
	}
	if os.Getenv("GOVC_TIMING") != "" {
		nc := 0
		for _, o := range all {
			if o.Expect == "sat" {
				nc++
			}
		}
		fmt.Fprintf(os.Stderr, "timing: load %.1fs generate %.1fs solve %.1fs (%d instances, %d covers)\n", loadS, genS, solveS, len(all), nc)
	}

	vacConfirmed, vacSuspects := vacuityFindings(all)
	// aggregate by obligation name
	byName := map[string]*oblSummary{}
	var names []string
	covers := map[string]string{}
	solverCount := map[string]int{}
	var solverMs int64
	for _, o := range all {
		solverMs += o.Millis
		if o.Expect == "sat" {
			st := o.Status
			if strings.Contains(o.Name, "/reach-") {
				continue // call-site probes are paired by vacuityFindings
			}
			if prev, ok := covers[o.Name]; !ok || prev == "unsat" {
				covers[o.Name] = st
			}
			continue
		}
		solverCount[o.Solver]++
		sm := byName[o.Name]
		if sm == nil {
			sm = &oblSummary{Name: o.Name, Kind: o.Kind, Func: o.Func, Pos: o.Pos, Desc: o.Desc, Contract: o.Contract, Status: "discharged"}
			byName[o.Name] = sm
			names = append(names, o.Name)
		}
		sm.Instances++
		sm.Millis += o.Millis
		if sm.Solver == "" {
			sm.Solver = o.Solver
		}
		switch o.Status {
		case "unsat":
		case "sat":
			if sm.Status != "refuted" {
				sm.Status = "refuted"
				sm.Model = o.Model
				sm.Solver = o.Solver
				sm.Script = o.fullScript()
				sm.Pos = o.Pos
			}
		default:
			if sm.Status == "discharged" {
				sm.Status = "undecided"
				sm.Detail = o.Status + " " + o.Model
				sm.Script = o.fullScript()
				sm.Pos = o.Pos
			}
			if sm.Status == "undecided" && sm.Candidate == "" && o.Candidate != "" {
				sm.Candidate = o.Candidate
			}
		}
	}
	if eng != nil && len(eng.contracts.Immutables) > 0 {
		n := "closed-world/immutable-after-init"
		sm := &oblSummary{Name: n, Kind: "closed-world", Desc: "locations declared `immutable` are written only by their package's initialisation code (whole-module scan of every Store)", Contract: true, Status: "discharged", Solver: "ssa-scan", Instances: 1}
		if len(eng.immProblems) > 0 {
			sm.Status = "refuted"
			sm.Detail = strings.Join(eng.immProblems, "; ")
			sm.Model = sm.Detail
		}
		byName[n] = sm
		names = append(names, n)
	}
	if eng != nil && len(eng.contracts.TypeInvs) > 0 {
		n := "closed-world/typeinv-objects-immutable"
		sm := &oblSummary{Name: n, Kind: "closed-world", Desc: "objects of types with a declared type invariant are written only inside their constructors (whole-module scan of every Store)", Contract: true, Status: "discharged", Solver: "ssa-scan", Instances: 1}
		if len(eng.tiProblems) > 0 {
			sm.Status = "refuted"
			sm.Detail = strings.Join(eng.tiProblems, "; ")
			sm.Model = sm.Detail
		}
		byName[n] = sm
		names = append(names, n)
	}
	if eng != nil && eng.prog != nil {
		for _, rule := range ps.ClosedWorld {
			n := "closed-world/" + rule.Name
			sm := &oblSummary{Name: n, Kind: "closed-world", Desc: rule.Desc, Contract: true, Status: "discharged", Solver: "ssa-scan", Instances: 1}
			var bad []string
			switch rule.Kind {
			case "fanout":
				bad = eng.scanFanout()
			case "nomapupdate":
				bad = eng.scanMapUpdates(rule.ForbidFns)
			case "anylist":
				bad = eng.scanAnyLists(rule.Allow)
			default:
				bad = eng.scanCalls(rule)
			}
			if len(bad) > 0 {
				sm.Status = "refuted"
				sm.Detail = strings.Join(bad, "; ")
				sm.Model = sm.Detail
			}
			byName[n] = sm
			names = append(names, n)
		}
	}
	sort.Strings(names)

	// ledger
	ledger := map[string][]string{}
	if data, err := os.ReadFile(filepath.Join(vd, "specs", "ledger.json")); err == nil {
		json.Unmarshal(data, &ledger)
	}
	if *writeLedger {
		var l []string
		for _, n := range names {
			if byName[n].Contract && byName[n].Status == "discharged" {
				l = append(l, n)
			}
		}
		ledger[pid] = l
		out, _ := json.MarshalIndent(ledger, "", " ")
		os.WriteFile(filepath.Join(vd, "specs", "ledger.json"), append(out, '\n'), 0o644)
		fmt.Printf("ledger[%s] = %d obligations\n", pid, len(l))
	}
	known := loadKnown(filepath.Join(vd, "known_findings.txt"))
	isKnown := func(name string) *KnownFinding {
		for i := range known {
			if known[i].Kind == "known" && known[i].Property == pid && known[i].Obligation == name {
				return &known[i]
			}
		}
		return nil
	}

	type violation struct {
		sm     *oblSummary
		reason string
	}
	var viols []violation
	var knownHit []string
	discharged := 0
	counted := 0
	for _, n := range names {
		sm := byName[n]
		if sm.Status == "discharged" {
			discharged++
			counted++
			continue
		}
		if kf := isKnown(n); kf != nil {
			knownHit = append(knownHit, fmt.Sprintf("KNOWN-FINDING: property=%s %s: %s", pid, n, kf.What))
			continue
		}
		counted++
		viols = append(viols, violation{sm, sm.Status})
	}
	// obligations the ledger expects but that were not generated (proof must not pass by disappearing)
	ledgerMoved := 0
	for _, n := range ledger[pid] {
		if _, ok := byName[n]; !ok {
			if isKnown(n) != nil {
				continue
			}
			if eng != nil && !ledgerClauseExists(eng, n) {
				// the clause that produced this obligation is no longer in the annotation files (a maintainer renamed,
				// renumbered or moved it together with the code): nothing silently stopped applying
				ledgerMoved++
				continue
			}
			counted++
			viols = append(viols, violation{&oblSummary{Name: n, Kind: "missing", Status: "missing", Desc: "obligation recorded in the ledger was not generated (function or contract clause disappeared, or the contract no longer applies)"}, "missing"})
		}
	}
	// a contract that attaches to no function (renamed or deleted code, annotation file not updated): nothing of it
	// is checked
	if eng != nil {
		var orphan []string
		for k, con := range eng.contracts.Funcs {
			if con.Kind != "func" && con.Kind != "" {
				continue
			}
			if len(eng.fnByKey[k]) > 0 || eng.sourceHasFunc(k) {
				continue
			}
			for _, pat := range ps.Funcs {
				if matchKey(pat, k) {
					orphan = append(orphan, k)
					break
				}
			}
		}
		sort.Strings(orphan)
		for _, k := range orphan {
			counted++
			viols = append(viols, violation{&oblSummary{Name: k + "/contract-without-function#1", Kind: "missing", Status: "undecided", Func: k, Desc: "the annotation file holds a contract for " + k + " but the package has no such function (renamed, renumbered or removed without the matching edit of the annotation file): nothing of this contract is checked", Contract: true}, "undecided"})
		}
	}
	// a path of a function under contract that left the supported subset: what follows on it was not checked
	for _, u := range sortedKeys(unsup) {
		fn := u
		if i := strings.Index(u, ": "); i >= 0 {
			fn = u[:i]
		}
		counted++
		viols = append(viols, violation{&oblSummary{Name: fn + "/unsupported#" + fmt.Sprint(len(viols)+1), Kind: "unsupported", Status: "undecided", Func: fn, Desc: "a path of this function uses a construct outside the verifier's subset, the obligations after that point were not generated: " + u, Contract: true}, "undecided"})
	}
	// vacuity: a call whose post-state is unsatisfiable although its pre-state was satisfiable
	for _, site := range vacConfirmed {
		counted++
		viols = append(viols, violation{&oblSummary{Name: site, Kind: "vacuity", Status: "refuted", Desc: "the postcondition assumed for this call contradicts what is known at the call site (the state before it is satisfiable, the state after it is not): everything after the call would be proved vacuously; the contract of the callee or the model of its effects is wrong", Contract: true}, "refuted"})
	}
	// a precondition (or loop invariant) that no state satisfies makes everything under it vacuous
	for n, st := range covers {
		if st == "unsat" && (strings.Contains(n, "/cover:entry") || strings.Contains(n, "/cover:L")) {
			counted++
			viols = append(viols, violation{&oblSummary{Name: strings.Replace(n, "/cover:", "/satisfiable:", 1), Kind: "vacuity", Status: "refuted", Desc: "no state satisfies the precondition (cover:entry) or the loop invariant at the loop head (cover:L<n>) of this function: its obligations would hold vacuously", Contract: true}, "refuted"})
		}
	}
	for _, site := range vacSuspects {
		fmt.Println("VACUITY-SUSPECT:", site, "(post-state unsatisfiable, pre-state not decided within the probe time)")
	}
	var specProblems []string
	if eng != nil {
		specProblems = append(specProblems, eng.contracts.Errors...)
		specProblems = append(specProblems, eng.specErrs...)
	}
	for _, k := range knownHit {
		fmt.Println(k)
	}
	for _, p := range specProblems {
		fmt.Println("CONTRACT-PROBLEM:", p)
	}
	// replay + report
	replayDir := filepath.Join(vd, "out", "replay")
	os.MkdirAll(replayDir, 0o755)
	confirmed := 0
	var violLines []string
	for _, v := range viols {
		rp := filepath.Join(replayDir, fmt.Sprintf("%s_%s.replay", pid, sanitize(v.sm.Name)))
		res := buildReplay(eng, *repo, pid, v.sm, rp)
		line := fmt.Sprintf("VIOLATION property=%s replay=%s obligation=%s status=%s", pid, rp, v.sm.Name, v.reason)
		if v.sm.Pos != "" {
			line += " at=" + v.sm.Pos
		}
		if res == "confirmed" {
			confirmed++
			line += " replay-confirmed"
		} else {
			line += " no-failing-input-found"
		}
		violLines = append(violLines, line)
	}
	for _, l := range violLines {
		fmt.Println(l)
	}
	if *verbose {
		for _, n := range names {
			sm := byName[n]
			fmt.Printf("  %-11s %-64s %5dms %-8s %s\n", sm.Status, sm.Name, sm.Millis, sm.Solver, sm.Desc)
		}
	}
	vacuous := 0
	for n, st := range covers {
		if st == "unsat" {
			vacuous++
			fmt.Println("COVER-UNREACHABLE:", n)
		}
	}

	// bounded conformance runs of assumed library contracts (never counted as proved; a failure means an assumed
	// contract is wrong for the code as it stands, which is reported as a violation of the check's basis)
	bounded := append([]string(nil), ps.Bounded...)
	for _, cf := range ps.Conformance {
		parts := strings.Split(cf, ":")
		if len(parts) < 3 {
			continue
		}
		src, err := os.ReadFile(filepath.Join(vd, "conformance", parts[0]+".go.txt"))
		if err != nil {
			bounded = append(bounded, "conformance run "+parts[0]+": source missing")
			continue
		}
		// "<name>:<pkgdir>:<Test>[:<quick bound>:<thorough bound>]"
		maxLen := "5"
		if thorough {
			maxLen = "6"
		}
		if len(parts) >= 5 {
			maxLen = parts[3]
			if thorough {
				maxLen = parts[4]
			}
		}
		os.Setenv("GOVC_CONF_MAXLEN", maxLen)
		tC := time.Now()
		failed, out := runOverlayTestV(*repo, parts[1], parts[2], string(src))
		line := ""
		for _, l := range strings.Split(out, "\n") {
			if strings.Contains(l, "CONFORMANCE") {
				line = strings.TrimSpace(l)
			}
		}
		if failed || line == "" {
			rp := filepath.Join(vd, "out", "replay", pid+"_conformance_"+parts[0]+".replay")
			os.MkdirAll(filepath.Dir(rp), 0o755)
			rf := ReplayFile{Property: pid, Obligation: "conformance/" + parts[0], Status: "refuted", Clause: "assumed contract " + parts[0] + " holds of the real code on every input of the bounded conformance run", Solver: "go test -overlay", Detail: out, PkgDir: parts[1], TestName: parts[2], TestSrc: string(src), Result: "confirmed", Output: out}
			data, _ := json.MarshalIndent(rf, "", " ")
			os.WriteFile(rp, data, 0o644)
			fmt.Printf("VIOLATION property=%s replay=%s obligation=conformance/%s status=refuted\n", pid, rp, parts[0])
			viols = append(viols, violation{&oblSummary{Name: "conformance/" + parts[0], Status: "refuted"}, "refuted"})
			bounded = append(bounded, "conformance run "+parts[0]+": FAILED")
			continue
		}
		bounded = append(bounded, fmt.Sprintf("bounded (not proof): assumed contract '%s' checked against the real code: %s; %.1fs", parts[0], line, time.Since(tC).Seconds()))
	}

	// evidence
	var samples []any
	for i, n := range names {
		if i%(len(names)/12+1) == 0 {
			sm := byName[n]
			samples = append(samples, map[string]any{"obligation": sm.Name, "kind": sm.Kind, "status": sm.Status, "solver": sm.Solver, "ms": sm.Millis, "clause": sm.Desc, "path_instances": sm.Instances})
		}
	}
	trusted := []string{
		"govc: SSA-to-SMT translation of /verif/govc (go/ssa lowering and go/types of golang.org/x/tools v0.29.0 trusted)",
		"SMT solvers z3 4.8.12, z3 5.1.0, cvc5 1.0.3 (an obligation counts as discharged when one of them answers unsat; thorough tier asks a second one)",
		"heap model: one array per struct field / element type / map type; allocation returns references distinct from every earlier one",
	}
	trusted = append(trusted, ps.Trusted...)
	var assumptions []string
	assumptions = append(assumptions, ps.Assumptions...)
	for _, a := range sortedKeys(assumed) {
		assumptions = append(assumptions, a)
	}
	mathFns := []string{}
	for _, c := range ctxs {
		if !c.checked {
			mathFns = append(mathFns, c.name)
		}
	}
	if len(mathFns) > 0 {
		assumptions = append(assumptions, "machine integers treated as mathematical integers (no overflow obligations; unsigned subtraction and signed->unsigned conversion are still checked) in: "+strings.Join(mathFns, ", "))
	}
	for _, u := range sortedKeys(unsup) {
		assumptions = append(assumptions, "path abandoned, obligations after this point not generated: "+u)
	}
	for _, u := range ps.Undecided {
		assumptions = append(assumptions, "clause of the property not decided by this check: "+u)
	}
	if eng != nil {
		for _, c := range ctxs {
			for k := range c.used {
				if con := eng.contracts.Funcs[k]; con != nil && con.Trusted != "" {
					assumptions = append(assumptions, "assumed (trusted) contract: "+k+" — "+con.Trusted)
				}
			}
		}
	}
	assumptions = dedupe(assumptions)
	dropped := "go/ssa form of the functions as compiled from the working tree; dropped: source positions/comments; `go` statements are not executed in the spawner (closure verified separately); compiler lowerings of range/switch/defer/generics trusted"
	ev := map[string]any{
		"property_id": pid,
		"tier":        *tier,
		"seed":        seed,
		"level":       "proof",
		"coverage": map[string]any{
			"obligations":              counted,
			"discharged":               discharged,
			"checker_cmd":              fmt.Sprintf("/verif/bin/govc check %s --tier %s  (VCs generated from go/ssa of /repo with -tags=verif; z3-new/z3/cvc5 raced per obligation, timeout %d ms)", pid, *tier, timeout),
			"trusted_base":             trusted,
			"functions_under_contract": funcsUnder,
			"helpers_verified_inlined": inlinedHelpers,
			"path_instances":           len(all),
			"solver_counts":            solverCount,
			"solver_ms_total":          solverMs,
			"load_s":                   loadS,
			"solve_wall_s":             solveS,
			"covers":                   map[string]any{"total": len(covers), "unreachable": vacuous},
			"known_findings_set_aside": knownHit,
			"undecided_or_refuted":     len(viols),
			"replay_confirmed":         confirmed,
			"bounded":                  bounded,
			"dropped_by_extraction":    dropped,
			"contract_problems":        specProblems,
			"samples":                  samples,
		},
		"assumptions": assumptions,
		"wall_s":      time.Since(t0).Seconds(),
		"violations":  len(viols),
	}
	os.MkdirAll(filepath.Join(vd, "evidence"), 0o755)
	out, _ := json.MarshalIndent(ev, "", " ")
	os.WriteFile(filepath.Join(vd, "evidence", pid+".json"), append(out, '\n'), 0o644)
	fmt.Printf("%s: %d obligations (%d path instances), %d discharged, %d known findings set aside, %d violations; %.1fs\n",
		pid, counted, len(all), discharged, len(knownHit), len(viols), time.Since(t0).Seconds())
	if len(viols) > 0 {
		os.Exit(1)
	}
}

// vacuityFindings pairs the reach-pre / reach-post probes of each call site: a post-state that is unsatisfiable
// while the pre-state was satisfiable means the callee's contract (or the model of its effects) contradicts the
// caller's knowledge -- everything after that call would be proved vacuously.
func vacuityFindings(all []*Obligation) (confirmed, suspects []string) {
	type key struct {
		fn, rest string
		path     int
	}
	pre := map[key]string{}
	preObl := map[key]*Obligation{}
	post := map[key]*Obligation{}
	for _, o := range all {
		if o.Expect != "sat" {
			continue
		}
		i := strings.Index(o.Name, "/reach-")
		if i < 0 {
			continue
		}
		rest := o.Name[i+len("/reach-"):]
		switch {
		case strings.HasPrefix(rest, "pre:"):
			pre[key{o.Func, rest[4:], o.PathID}] = o.Status
			preObl[key{o.Func, rest[4:], o.PathID}] = o
		case strings.HasPrefix(rest, "post:"):
			post[key{o.Func, rest[5:], o.PathID}] = o
		}
	}
	seenC, seenS := map[string]bool{}, map[string]bool{}
	for k, o := range post {
		if o.Status != "unsat" {
			continue
		}
		site := o.Func + "/consistent:" + k.rest
		if st := pre[k]; st != "sat" && st != "unsat" && preObl[k] != nil {
			// decide the pre-state with a real time budget before calling it a suspect
			pre[k] = reprobe(preObl[k])
		}
		switch pre[k] {
		case "sat":
			if !seenC[site] {
				seenC[site] = true
				confirmed = append(confirmed, site)
			}
		case "unsat":
		default:
			if !seenS[site] {
				seenS[site] = true
				suspects = append(suspects, site)
			}
		}
	}
	sort.Strings(confirmed)
	sort.Strings(suspects)
	return
}

func reprobe(o *Obligation) string {
	script := o.Script
	if script == "" {
		script = o.Prefix + o.Tail
	}
	f, err := os.CreateTemp("", "govc-reprobe-*.smt2")
	if err != nil {
		return "unknown"
	}
	defer os.Remove(f.Name())
	f.WriteString(script)
	f.Close()
	for _, sp := range solvers {
		r := runSolver(context.Background(), sp, f.Name(), 20000)
		if r.status == "sat" || r.status == "unsat" {
			return r.status
		}
	}
	return "unknown"
}

func dedupe(xs []string) []string {
	seen := map[string]bool{}
	var out []string
	for _, x := range xs {
		if !seen[x] {
			seen[x] = true
			out = append(out, x)
		}
	}
	return out
}

func keepObligation(ps *PropSpec, o *Obligation) bool {
	for _, ex := range ps.Exclude {
		if ok, _ := regexp.MatchString(ex, o.Name); ok {
			return false
		}
	}
	if len(ps.OnlyNames) > 0 {
		m := false
		for _, on := range ps.OnlyNames {
			if ok, _ := regexp.MatchString(on, o.Name); ok {
				m = true
			}
		}
		if !m {
			return false
		}
	}
	if len(ps.Kinds) > 0 && !o.Contract && o.Expect == "unsat" {
		for _, k := range ps.Kinds {
			if strings.HasPrefix(o.Kind, k) {
				return true
			}
		}
		return false
	}
	return true
}

// ledgerClauseExists: does the contract clause that produced the ledger entry `name` still exist in the annotation
// files as loaded now? A ledger entry only flags a clause that is still written down but no longer yields its
// obligation (function gone, loop gone, call gone, path generation aborted). When the clause itself is gone, the
// annotation file was edited together with the code, which is the maintainer's way of saying where it went.
func ledgerClauseExists(eng *Engine, name string) bool {
	slash := strings.Index(name, "/")
	if slash < 0 {
		return true
	}
	key, rest := name[:slash], name[slash+1:]
	con := eng.contracts.Funcs[key]
	if con == nil {
		return false
	}
	hash := strings.LastIndex(rest, "#")
	if hash < 0 {
		return true
	}
	kind, idx := rest[:hash], rest[hash+1:]
	if dot := strings.Index(idx, "."); dot >= 0 {
		idx = idx[:dot]
	}
	k, err := strconv.Atoi(idx)
	if err != nil || k < 1 {
		return true
	}
	loopOf := func(prefix string) (int, bool) {
		if !strings.HasPrefix(kind, prefix) {
			return 0, false
		}
		n, err := strconv.Atoi(strings.TrimPrefix(kind, prefix))
		return n, err == nil
	}
	switch {
	case kind == "post":
		return len(con.Ensures) >= k
	case kind == "exit":
		return len(con.Exits) >= k
	case strings.HasPrefix(kind, "callsite:"):
		return len(con.CallSites) >= k && con.CallSites[k-1].Callee == strings.TrimPrefix(kind, "callsite:")
	}
	if n, ok := loopOf("inv-entry:L"); ok {
		return len(con.LoopInv[n]) >= k
	}
	if n, ok := loopOf("inv-preserve:L"); ok {
		return len(con.LoopInv[n]) >= k
	}
	if n, ok := loopOf("backedge:L"); ok {
		return len(con.BackEdges[n]) >= k
	}
	return true
}
