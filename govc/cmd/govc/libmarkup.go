package main

import (
	"fmt"
	"go/types"

	"golang.org/x/tools/go/ssa"
)

// Assumed contracts of the markup libraries (golang.org/x/net/html, goldmark, bytes.Buffer) and of
// regexp.ReplaceAllStringFunc, used by hypertext / markdown / plaintext.
//
// mkclean(t): the markup of t -- everything outside character references -- contains no control character
// other than newline. clean(t) implies mkclean(t). html.ParseFragment keeps tag and attribute names of such
// input free of control characters (they are never produced by entity decoding), while text and attribute
// VALUES are re-materialised by entity decoding and may contain anything.

func (s *State) declMk() {
	s.c.declare("mkclean", "(declare-fun mkclean (Str) Bool)")
}

func init() {
	extraLib = append(extraLib, func(e *Engine) {
		L := e.lib
		L["golang.org/x/net/html.ParseFragment"] = func(s *State, site ssa.Instruction, a []Val) []Val {
			s.used("html.ParseFragment(r, ctx): returns an error or a list of non-nil nodes; when the markup of the input has no control characters, element and attribute NAMES have none either (the invariant stated on html.Node); text and attribute values may contain any character (entity decoding)")
			s.declMk()
			s.c.declare("readerOf", "(declare-fun readerOf (Int) Str)")
			sig := site.(ssa.CallInstruction).Common().Signature()
			txt := app("readerOf", app("pref", app("ipay", a[0].S)))
			s.assume(implies(app("clean", txt), app("mkclean", txt)))
			s.oblige("lib-pre:html.ParseFragment", site, s.c.ordinal(site, "lib-pre:html.ParseFragment"), app("mkclean", txt), "html.ParseFragment: the markup handed to the parser may contain raw control characters (tag names are then not clean)", false)
			// fresh nodes
			lo := s.alloc
			na := s.c.freshConst("alloc", sInt)
			s.assume(app("<=", lo, na))
			s.alloc = na
			nodesT := sig.Results().At(0).Type()
			et := nodesT.Underlying().(*types.Slice).Elem()
			n := s.c.freshConst("nnodes", sInt)
			s.assume(app("<=", "0", n))
			b := s.newRef()
			key := elemKey(et, nil, "")
			srt := arrSort(sInt, arrSort(sInt, sInt))
			inner := s.c.freshConst("nodes", arrSort(sInt, sInt))
			s.heapSet(key, srt, sto(s.heapGet(key, srt), b, inner))
			k := fmt.Sprintf("k!%d", s.c.fresh)
			s.c.fresh++
			s.assume(fmt.Sprintf("(forall ((%s Int)) (! (=> (and (<= 0 %s) (< %s %s)) (and (<= %s (select %s %s)) (< (select %s %s) %s) (< 0 (select %s %s)))) :pattern ((select %s %s))))",
				k, k, k, n, lo, inner, k, inner, k, na, inner, k, inner, k))
			errv, isNil := s.errOrNil("parseerr", false)
			nodes := Val{T: nodesT, Sl: &SliceV{s.define("nodesb", sInt, ite(isNil, b, "0")), "0", s.define("nodesl", sInt, ite(isNil, n, "0")), s.define("nodesc", sInt, ite(isNil, n, "0"))}}
			return []Val{nodes, errv}
		}
		L["goldmark.Markdown.Convert"] = func(s *State, site ssa.Instruction, a []Val) []Val {
			s.used("goldmark Convert(source, w): writes HTML to w and touches nothing else; what it writes is a function of the source (mdhtml); for source text without control characters the markup written has none outside character references (raw HTML is not passed through, tag and attribute names are goldmark's own)")
			s.declMk()
			s.c.declare("textOfBytes", "(declare-fun textOfBytes (Int Int Int) Str)")
			out := s.freshStr("mdhtml")
			if len(a) >= 3 && a[1].Sl != nil {
				src := app("textOfBytes", a[1].Sl.Base, a[1].Sl.Off, a[1].Sl.Len)
				s.assume(implies(app("clean", src), app("mkclean", out.S)))
				// what is written is a function of the source (the renderer is immutable after init)
				s.c.declare("mdhtml", "(declare-fun mdhtml (Str) Str)")
				s.assume(eq(out.S, app("mdhtml", src)))
			}
			if len(a) >= 3 {
				// the writer receives what Convert wrote AFTER what it held before: empty only for a buffer
				// allocated in this activation that nothing has been written to yet
				ref := app("pref", app("ipay", a[2].S))
				key := "buftext|" + ref
				var before Val
				if prev, ok := s.ghost[key]; ok {
					before = prev
				} else {
					before = s.freshStr("bufold")
					s.assume(implies(app(">=", ref, s.alloc0), eq(before.S, s.c.lit(""))))
				}
				s.ghost[key] = s.cat(before, out)
			}
			errv, _ := s.errOrNil("converr", false)
			return []Val{errv}
		}
		L["(time.Time).Format"] = func(s *State, site ssa.Instruction, a []Val) []Val {
			r := s.freshStr("timefmt")
			if lay, ok := constString(callArg(site, 1)); ok && refClean(lay) && refNoCTL(lay) {
				s.used("(time.Time).Format(layout) with a constant printable-ASCII layout yields printable ASCII text without newline")
				s.assume(and(app("clean", r.S), app("noNL", r.S)))
			}
			return []Val{r}
		}
		L["(*bytes.Buffer).String"] = func(s *State, site ssa.Instruction, a []Val) []Val {
			s.used("(*bytes.Buffer).String(): the text written to the buffer so far")
			for k, v := range s.ghost {
				if len(k) > 8 && k[:8] == "buftext|" {
					// the buffer is the one Convert wrote to when its reference is that of the writer
					r := s.freshStr("bufstr")
					s.declMk()
					ref := k[8:]
					recv := s.globRef(a[0])
					if recv == "" {
						return []Val{r}
					}
					s.assume(implies(eq(ref, recv), eq(r.S, v.S)))
					return []Val{r}
				}
			}
			return []Val{s.freshStr("bufstr")}
		}
		// strings.Builder: what has been written so far is a ghost string per builder; a builder declared in the
		// activation starts empty
		sbKey := func(s *State, recv Val) (string, Val, bool) {
			ref := s.globRef(recv)
			if ref == "" {
				return "", Val{}, false
			}
			key := "sbuilder|" + ref
			if cur, ok := s.ghost[key]; ok {
				return key, cur, true
			}
			before := s.freshStr("sbold")
			if _, unk := s.ghost["bufunknown|"+key]; !unk {
				s.assume(implies(app(">=", ref, s.alloc0), eq(before.S, s.c.lit(""))))
			}
			return key, before, true
		}
		L["(*strings.Builder).WriteString"] = func(s *State, site ssa.Instruction, a []Val) []Val {
			s.used("(*strings.Builder).WriteString/String: the builder holds the concatenation of what was written, in order")
			if key, cur, ok := sbKey(s, a[0]); ok {
				s.ghost[key] = s.cat(cur, a[1])
			}
			return []Val{{T: intT, S: s.define("len", sInt, app("blen", a[1].S))}, {T: errorT, S: "nilI"}}
		}
		L["(*strings.Builder).WriteByte"] = func(s *State, site ssa.Instruction, a []Val) []Val {
			if key, cur, ok := sbKey(s, a[0]); ok {
				s.ghost[key] = s.cat(cur, s.freshStr("sbbyte"))
			}
			return []Val{{T: errorT, S: "nilI"}}
		}
		L["(*strings.Builder).WriteRune"] = func(s *State, site ssa.Instruction, a []Val) []Val {
			if key, cur, ok := sbKey(s, a[0]); ok {
				s.ghost[key] = s.cat(cur, s.freshStr("sbrune"))
			}
			return []Val{s.freshVal(intT, "n"), {T: errorT, S: "nilI"}}
		}
		L["(*strings.Builder).String"] = func(s *State, site ssa.Instruction, a []Val) []Val {
			if _, cur, ok := sbKey(s, a[0]); ok {
				return []Val{cur}
			}
			return []Val{s.freshStr("sbstr")}
		}
		L["(*strings.Builder).Len"] = func(s *State, site ssa.Instruction, a []Val) []Val {
			if _, cur, ok := sbKey(s, a[0]); ok {
				return []Val{{T: intT, S: s.define("len", sInt, app("blen", cur.S))}}
			}
			return []Val{s.freshVal(intT, "sblen")}
		}
		L["(*strings.Builder).Grow"] = func(s *State, site ssa.Instruction, a []Val) []Val {
			return nil
		}
		L["(*strings.Builder).Reset"] = func(s *State, site ssa.Instruction, a []Val) []Val {
			if key, _, ok := sbKey(s, a[0]); ok {
				s.ghost[key] = Val{T: strT, S: s.c.lit("")}
			}
			return nil
		}
		L["(*regexp.Regexp).ReplaceAllStringFunc"] = func(s *State, site ssa.Instruction, a []Val) []Val {
			r := s.freshStr("replacedf")
			clo := a[2].Clo
			if clo == nil || clo.Fn.Blocks == nil {
				s.havocCall("regexp.ReplaceAllStringFunc with an unknown callback", nil, true)
				return []Val{r}
			}
			s.used("regexp.ReplaceAllStringFunc(src, f): the result is src with every match replaced by f(match); matches are substrings of src; f is called once per match, in order (lemmas about f's result proved on its real body for an arbitrary match)")
			src := a[1].S
			s.strBasics(src)
			side := s.clone()
			m := side.freshStr("match")
			side.assume(implies(app("clean", src), app("clean", m.S)))
			side.assume(implies(app("noNL", src), app("noNL", m.S)))
			side.assume(app("<=", app("blen", m.S), app("blen", src)))
			if pat, ok := s.c.eng.regexpPattern(callArg(site, 0)); ok && pat == "[A-Za-z][A-Za-z0-9+\\-.]*://[A-Za-z0-9.?#/@:%_~!$&'()*+,;=\\[\\]\\-]+" {
				s.used("the URL pattern of plaintext matches printable ASCII only: every match is clean, newline-free and at least 5 bytes long")
				side.assume(and(app("clean", m.S), app("noNL", m.S), app("noCTL", m.S), app("<=", "5", app("blen", m.S))))
			}
			wfOK, nlOK := true, true
			paths := 0
			side.inline(clo.Fn, []Val{m}, clo.Bindings, func(st *State, res []Val) {
				paths++
				if len(res) != 1 {
					wfOK, nlOK = false, false
					return
				}
				if wfOK && !st.proveNow(app("wf", res[0].S)) {
					wfOK = false
				}
				if nlOK && !st.proveNow(eq(app("nl", res[0].S), "0")) {
					nlOK = false
				}
			})
			// the callback ran an unknown number of times in the real execution: forget what it may have written
			s.havocCall("", nil, true)
			if paths > 0 && wfOK {
				n := s.c.ordinal(site, "lemma:ReplaceAllStringFunc")
				s.c.obls = append(s.c.obls, &Obligation{Name: fmt.Sprintf("%s/lemma:ReplaceAllStringFunc-wf#%d", s.c.name, n), Func: s.c.name, Kind: "lemma", Desc: "the callback returns a cell-language string for every match (proved on its body)", Expect: "unsat", Status: "unsat", Solver: "z3-new(sync)", Pos: s.c.eng.posOf(site)})
				s.assume(implies(app("clean", src), app("wf", r.S)))
				if nlOK {
					s.assume(eq(app("nl", r.S), app("nl", src)))
				}
			}
			return []Val{r}
		}
	})
}
