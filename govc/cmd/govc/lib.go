package main

import (
	"fmt"
	"go/types"

	"golang.org/x/tools/go/ssa"
)

type libModel func(s *State, site ssa.Instruction, args []Val) []Val

// ---------- builtins ----------

func (s *State) lenOf(v Val) string {
	switch kindOf(v.T) {
	case kSlice:
		return v.Sl.Len
	case kStr:
		s.strBasics(v.S)
		return s.define("len", sInt, app("blen", v.S))
	case kMap:
		x := &EvalCtx{s: s}
		n := s.define("len", sInt, x.mapLen(v))
		s.assume(app("<=", "0", n))
		return n
	}
	return s.c.freshConst("len", sInt)
}

func (s *State) builtin(site ssa.Instruction, b *ssa.Builtin, args []Val) []Val {
	c := s.c
	switch b.Name() {
	case "len":
		return []Val{{T: intT, S: s.lenOf(args[0])}}
	case "cap":
		if kindOf(args[0].T) == kSlice {
			return []Val{{T: intT, S: args[0].Sl.Cap}}
		}
	case "append":
		return []Val{s.appendOp(site, args[0], args[1])}
	case "copy":
		return []Val{s.copyOp(site, args[0], args[1])}
	case "delete":
		m, k := args[0], args[1]
		mt := m.T.Underlying().(*types.Map)
		ks, _ := mapSorts(mt)
		dkey := "mapdom|" + typeKey(m.T.Underlying())
		dsrt := arrSort(sInt, arrSort(ks, sBool))
		s.frameCheckMap(site, m)
		dh := s.heapGet(dkey, dsrt)
		s.heapSet(dkey, dsrt, sto(dh, m.S, sto(sel(dh, m.S), k.S, "false")))
		return nil
	case "print", "println":
		return nil
	case "min", "max":
		op := "<="
		if b.Name() == "max" {
			op = ">="
		}
		r := args[0]
		for _, a := range args[1:] {
			r = Val{T: r.T, S: s.define("mm", sInt, ite(app(op, r.S, a.S), r.S, a.S))}
		}
		return []Val{r}
	case "recover":
		return []Val{{T: types.NewInterfaceType(nil, nil), S: "nilI"}}
	}
	s.unsupported("builtin " + b.Name())
	sig, _ := b.Type().(*types.Signature)
	if sig != nil {
		return s.freshResults(sig, "bi")
	}
	_ = c
	return nil
}

// appendOp implements append(a, b...) with Go's in-place/reallocate rule.
func (s *State) appendOp(site ssa.Instruction, a, b Val) Val {
	c := s.c
	st, ok := a.T.Underlying().(*types.Slice)
	if !ok {
		s.unsupported("append on non-slice")
		return a
	}
	et := st.Elem()
	if kindOf(b.T) == kStr {
		// append([]byte, string...)
		s.unsupported("append of string to []byte")
		return a
	}
	if a.Sl == nil {
		a.Sl = &SliceV{"0", "0", "0", "0"}
	}
	if b.Sl == nil {
		b.Sl = &SliceV{"0", "0", "0", "0"}
	}
	n := b.Sl.Len
	newLen := s.define("alen", sInt, app("+", a.Sl.Len, n))
	fits := s.define("fits", sBool, app("<=", newLen, a.Sl.Cap))
	nb := s.newRef()
	newCap := c.freshConst("acap", sInt)
	s.assume(app("<=", newLen, newCap))
	// frame: the in-place case writes the backing array of a
	if c.frameOn && !c.frameAll {
		goal := implies(and(fits, app(">", n, "0")), c.frameGoal(s, "elems", "elem|"+typeKey(et), a.Sl.Base))
		s.oblige("frame", site, c.ordinal(site, "frame"), goal, "append writes spare capacity outside the assigns clause", false)
	}
	if c.cellsMode {
		s.declCells()
		switch {
		case kindOf(et) == kStr:
			s.oblige("cells-immutable", site, c.ordinal(site, "cells-immutable"), implies(fits, not(app("isCellRef", a.Sl.Base))), "append in place into a match of ansi.expand (the cell model treats it as immutable)", false)
		case kindOf(et) == kSlice && kindOf(et.Underlying().(*types.Slice).Elem()) == kStr:
			s.oblige("cells-immutable", site, c.ordinal(site, "cells-immutable"), implies(and(fits, app(">", n, "0")), not(app("isCells", a.Sl.Base))), "append in place into the match list of ansi.expand (the cell model treats it as immutable)", false)
		}
	}
	var oldInner, appended string
	sums := (c.useLines || c.cellsMode) && kindOf(et) == kStr && n == "1"
	if sums {
		oldInner = s.define("oldelems", arrSort(sInt, sStr), s.strElems(a.Sl.Base))
		appended = sel(s.strElems(b.Sl.Base), b.Sl.Off)
	}
	s.appendElems(et, nil, a, b, fits, nb, n)
	res := Val{T: a.T, Sl: &SliceV{
		Base: s.define("ab", sInt, ite(fits, a.Sl.Base, nb)),
		Off:  s.define("ao", sInt, ite(fits, a.Sl.Off, "0")),
		Len:  newLen,
		Cap:  s.define("ac", sInt, ite(fits, a.Sl.Cap, newCap)),
	}}
	if sums {
		// the elements of the result are those of a followed by the appended one: element sums grow by its measure
		s.declSums()
		newInner := s.strElems(res.Sl.Base)
		for _, f := range []string{"vlen", "nsc"} {
			s.assume(eq(app("ssum_"+f, newInner, res.Sl.Off, app("+", res.Sl.Off, newLen)),
				app("+", app("ssum_"+f, oldInner, a.Sl.Off, app("+", a.Sl.Off, a.Sl.Len)), app(f, appended))))
		}
		if c.strOrder {
			s.declOrder()
			s.assume(eq(app("scat_nsx", newInner, res.Sl.Off, app("+", res.Sl.Off, newLen)),
				app("cat", app("scat_nsx", oldInner, a.Sl.Off, app("+", a.Sl.Off, a.Sl.Len)), app("nsx", appended))))
		}
	}
	// appending nothing to a nil slice yields nil
	if n != "1" {
		res.Sl.Base = s.define("ab", sInt, ite(and(eq(a.Sl.Base, "0"), eq(n, "0")), "0", res.Sl.Base))
	}
	return res
}

func (s *State) appendElems(et types.Type, path []int, a, b Val, fits, nb, n string) {
	t := pathType(et, path)
	if kindOf(t) == kStruct {
		stt := t.Underlying().(*types.Struct)
		for i := 0; i < stt.NumFields(); i++ {
			s.appendElems(et, append(append([]int(nil), path...), i), a, b, fits, nb, n)
		}
		return
	}
	c := s.c
	for _, cp := range comps(t) {
		key := elemKey(et, path, cp.Suffix)
		inner := arrSort(sInt, cp.Sort)
		srt := arrSort(sInt, inner)
		h := s.heapGet(key, srt)
		oldA := sel(h, a.Sl.Base)
		srcB := sel(h, b.Sl.Base)
		var inPlace, fresh string
		if n == "1" {
			x := sel(srcB, b.Sl.Off)
			inPlace = sto(oldA, app("+", a.Sl.Off, a.Sl.Len), x)
			fr := c.freshConst("apf", inner)
			j := fmt.Sprintf("j!%d", c.fresh)
			c.fresh++
			s.assume(fmt.Sprintf("(forall ((%s Int)) (! (=> (and (<= 0 %s) (< %s %s)) (= (select %s %s) (select %s %s))) :pattern ((select %s %s))))",
				j, j, j, a.Sl.Len, fr, j, oldA, ixT(a.Sl.Off, j), fr, j))
			fresh = sto(fr, a.Sl.Len, x)
		} else {
			ip := c.freshConst("api", inner)
			j := fmt.Sprintf("j!%d", c.fresh)
			c.fresh++
			lo := app("+", a.Sl.Off, a.Sl.Len)
			// in place: cells outside [lo, lo+n) keep their value, cell k in that window holds b[k-lo]
			s.assume(fmt.Sprintf("(forall ((%s Int)) (! (= (select %s %s) (ite (and (<= %s %s) (< %s (+ %s %s))) (select %s %s) (select %s %s))) :pattern ((select %s %s))))",
				j, ip, j, lo, j, j, lo, n, srcB, ixT(b.Sl.Off, app("-", j, lo)), oldA, j, ip, j))
			inPlace = ip
			fr := c.freshConst("apf", inner)
			// reallocated: cell k < len(a) holds a[k], cell len(a) <= k < len(a)+n holds b[k-len(a)]
			s.assume(fmt.Sprintf("(forall ((%s Int)) (! (=> (and (<= 0 %s) (< %s (+ %s %s))) (= (select %s %s) (ite (< %s %s) (select %s %s) (select %s %s)))) :pattern ((select %s %s))))",
				j, j, j, a.Sl.Len, n, fr, j, j, a.Sl.Len, oldA, ixT(a.Sl.Off, j), srcB, ixT(b.Sl.Off, app("-", j, a.Sl.Len)), fr, j))
			fresh = fr
		}
		s.heapSet(key, srt, ite(fits, sto(h, a.Sl.Base, inPlace), sto(h, nb, fresh)))
	}
}

func (s *State) copyOp(site ssa.Instruction, dst, src Val) Val {
	c := s.c
	if kindOf(src.T) == kStr || dst.Sl == nil {
		s.unsupported("copy from string")
		return Val{T: intT, S: "0"}
	}
	if src.Sl == nil {
		src.Sl = &SliceV{"0", "0", "0", "0"}
	}
	et := dst.T.Underlying().(*types.Slice).Elem()
	n := s.define("cpn", sInt, ite(app("<=", dst.Sl.Len, src.Sl.Len), dst.Sl.Len, src.Sl.Len))
	if c.frameOn && !c.frameAll {
		goal := implies(app(">", n, "0"), c.frameGoal(s, "elems", "elem|"+typeKey(et), dst.Sl.Base))
		s.oblige("frame", site, c.ordinal(site, "frame"), goal, "copy writes outside the assigns clause", false)
	}
	s.cellsStoreCheck(site, dst.Sl.Base, et)
	s.copyElems(et, nil, dst, src, n)
	return Val{T: intT, S: n}
}

func (s *State) copyElems(et types.Type, path []int, dst, src Val, n string) {
	t := pathType(et, path)
	if kindOf(t) == kStruct {
		stt := t.Underlying().(*types.Struct)
		for i := 0; i < stt.NumFields(); i++ {
			s.copyElems(et, append(append([]int(nil), path...), i), dst, src, n)
		}
		return
	}
	c := s.c
	for _, cp := range comps(t) {
		key := elemKey(et, path, cp.Suffix)
		inner := arrSort(sInt, cp.Sort)
		srt := arrSort(sInt, inner)
		h := s.heapGet(key, srt)
		oldD := sel(h, dst.Sl.Base)
		srcA := sel(h, src.Sl.Base)
		nd := c.freshConst("cpd", inner)
		j := fmt.Sprintf("j!%d", c.fresh)
		c.fresh++
		lo := dst.Sl.Off
		s.assume(fmt.Sprintf("(forall ((%s Int)) (! (=> (or (< %s %s) (>= %s (+ %s %s))) (= (select %s %s) (select %s %s))) :pattern ((select %s %s))))",
			j, j, lo, j, lo, n, nd, j, oldD, j, nd, j))
		s.assume(fmt.Sprintf("(forall ((%s Int)) (! (=> (and (<= 0 %s) (< %s %s)) (= (select %s (+ %s %s)) (select %s (+ %s %s)))) :pattern ((select %s (+ %s %s)))))",
			j, j, j, n, nd, lo, j, srcA, src.Sl.Off, j, nd, lo, j))
		s.heapSet(key, srt, sto(h, dst.Sl.Base, nd))
	}
}

// ---------- stubs filled in by later layers ----------

func (s *State) goStmt(x *ssa.Go) {
	s.c.assumed["go statement at "+s.c.eng.posOf(x)+": goroutine body verified separately; spawner continues as if it had not yet run"] = true
	mc, ok := x.Call.Value.(*ssa.MakeClosure)
	if !ok {
		return
	}
	fn := mc.Fn.(*ssa.Function)
	key := s.c.eng.fnKey(fn)
	con := s.c.eng.contracts.Funcs[key]
	if con == nil {
		return
	}
	// the goroutine body's preconditions (over its captured variables) must hold where it is spawned
	vars := map[string]Val{}
	for i, fv := range fn.FreeVars {
		if i < len(mc.Bindings) {
			b := s.valOf(mc.Bindings[i])
			if a := s.ptrAddr(b); a != nil && derefType(b.T) != nil {
				vars[fv.Name()] = s.pureLoad(a)
			} else {
				vars[fv.Name()] = b
			}
		}
	}
	for i, rq := range con.Requires {
		xc := &EvalCtx{s: s, vars: vars, pkg: pkgOf(fn)}
		v := xc.eval(rq.Expr)
		s.c.specErrors(xc, rq.Where)
		s.oblige("pre:"+key, x, s.c.ordinal(x, "pre:"+key)*100+i+1, v.S, "precondition of the goroutine body "+key+" at its go statement: "+rq.Src, false)
	}
}

// joinedGo: the enclosing function joins its goroutines with a WaitGroup; under the disjointness obligations of
// C08 (no two of them, nor the spawner before Wait, touch the same location) running each one at its spawn
// point is equivalent to every interleaving, so the go statement is executed as a call.
func (s *State) joinedGo(x *ssa.Go) bool {
	fn := x.Parent()
	return s.c.eng.hasWait[fn]
}

// lockCheck: accesses to fields of guarded types need the UI mutex (C08, lock discipline).
func (s *State) lockCheck(instr ssa.Instruction, a *Addr) {
	if a.Space != "fld" {
		return
	}
	n, ok := a.Struct.(*types.Named)
	if !ok || n.Obj().Pkg() == nil {
		return
	}
	eng := s.c.eng
	guarded := false
	for _, g := range eng.contracts.Guardeds {
		if g.Type == n.Obj().Name() && g.Pkg == n.Obj().Pkg().Name() {
			guarded = true
		}
	}
	if !guarded {
		return
	}
	fname := n.Obj().Name() + "." + n.Underlying().(*types.Struct).Field(a.Field).Name()
	if _, isStore := instr.(*ssa.Store); isStore && s.c.con != nil {
		for k, so := range s.c.con.StoreOnly {
			if so.Field != fname {
				continue
			}
			x := s.invCtx()
			v := x.eval(so.Clause.Expr)
			s.c.specErrors(x, so.Clause.Where)
			s.oblige("storeonly:"+fname, instr, k+1, eq(a.Ref, v.S), "this goroutine may write "+fname+" only of "+so.Clause.Src+" (the object whose continuation it owns)", true)
		}
	}
	if s.c.con != nil {
		for _, o := range s.c.con.Owns {
			if o == fname {
				s.c.assumed["field "+fname+" is accessed by "+s.c.name+" without the mutex: it is owned by this goroutine while its loading flag is set (flag set and cleared under the mutex; checked: no other writer)"] = true
				return
			}
		}
	}
	// the mutex pointer itself is immutable after construction
	if fname == "State.m" {
		return
	}
	goal := or(s.held, app(">=", a.Ref, s.c.entry.alloc))
	s.oblige("lock", instr, s.c.ordinal(instr, "lockfield"), goal, "access to "+fname+" without holding the UI mutex", false)
}

func (s *State) heldTerm() string { return s.held }

func (s *State) libIndex(x *ssa.Index) Val {
	if m := s.valOf(x.X); kindOf(m.T) == kStr {
		return s.libIndexStr(x, m, s.valOf(x.Index))
	}
	s.unsupported("Index on array value")
	return s.freshVal(x.Type(), "idx")
}

func (s *State) libIndexStr(x ssa.Instruction, m, k Val) Val {
	s.strBasics(m.S)
	goal := and(app("<=", "0", k.S), app("<", k.S, app("blen", m.S)))
	s.oblige("bounds", x, s.c.ordinal(x, "bounds"), goal, "string index out of range", false)
	s.assume(goal)
	r := s.freshVal(types.Typ[types.Uint8], "byte")
	s.assume(and(app("<=", "0", r.S), app("<=", r.S, "255")))
	s.c.declare("byteAt", "(declare-fun byteAt (Str Int) Int)")
	s.assume(eq(r.S, app("byteAt", m.S, k.S)))
	return r
}

func (s *State) libSubstr(instr *ssa.Slice, x Val, lo, hi string) Val {
	if lo == "" {
		lo = "0"
	}
	if hi == "" {
		hi = app("blen", x.S)
	}
	goal := and(app("<=", "0", lo), app("<=", lo, hi), app("<=", hi, app("blen", x.S)))
	s.oblige("bounds", instr, s.c.ordinal(instr, "bounds"), goal, "string slice bounds out of range", false)
	s.assume(goal)
	r := s.freshVal(instr.Type(), "substr")
	s.strBasics(r.S)
	s.assume(eq(app("blen", r.S), app("-", hi, lo)))
	s.c.declare("substr", "(declare-fun substr (Str Int Int) Str)")
	s.assume(eq(r.S, app("substr", x.S, lo, hi)))
	// cutting at byte positions can split a rune: cleanliness is preserved only at newline/ASCII boundaries;
	// nothing about clean/wf is promised here
	s.assume(app("<=", app("nl", r.S), app("nl", x.S)))
	return r
}

func (s *State) runeElems(base string) string {
	et := types.Typ[types.Rune]
	key := elemKey(et, nil, "")
	return sel(s.heapGet(key, arrSort(sInt, arrSort(sInt, sInt))), base)
}

func (s *State) declRunePreds() {
	for _, p := range []string{"runesNoNL", "runesClean", "runesDigits"} {
		s.c.declare(p, fmt.Sprintf("(declare-fun %s ((Array Int Int)) Bool)", p))
	}
}

// string(runes): assumed contract -- newline-freedom and cleanliness carry over from the rune array.
func (s *State) libRunesToString(x Val, to types.Type) Val {
	r := s.freshVal(to, "r2s")
	s.strBasics(r.S)
	if x.Sl == nil || !types.Identical(x.T.Underlying().(*types.Slice).Elem().Underlying(), types.Typ[types.Int32]) {
		return r
	}
	s.used("string([]rune): newline-free / control-free rune arrays give newline-free / clean strings of len(runes) cells")
	s.declRunePreds()
	inner := s.runeElems(x.Sl.Base)
	s.assume(implies(app("runesNoNL", inner), app("noNL", r.S)))
	s.assume(implies(app("runesClean", inner), app("clean", r.S)))
	s.assume(implies(app("runesDigits", inner), app("digits", r.S)))
	s.assume(implies(and(app("runesNoNL", inner), app("runesClean", inner)), eq(app("vlen", r.S), x.Sl.Len)))
	s.assume(implies(eq(x.Sl.Len, "0"), eq(r.S, "emp")))
	return r
}

// []rune(s): assumed contract -- a fresh array; clean strings have one rune per cell.
func (s *State) libStringToRunes(x Val, to types.Type) Val {
	s.strBasics(x.S)
	n := s.c.freshConst("nrunes", sInt)
	s.assume(and(app("<=", "0", n), app("<=", n, app("blen", x.S))))
	b := s.newRef()
	r := Val{T: to, Sl: &SliceV{b, "0", n, n}}
	if !types.Identical(to.Underlying().(*types.Slice).Elem().Underlying(), types.Typ[types.Int32]) {
		// []byte(s): remember the text the bytes came from
		s.c.declare("textOfBytes", "(declare-fun textOfBytes (Int Int Int) Str)")
		s.assume(eq(app("textOfBytes", b, "0", n), x.S))
		s.assume(eq(n, app("blen", x.S)))
		return r
	}
	s.used("[]rune(s): clean s has vlen(s)+nl(s) runes; newline-free / clean strings give newline-free / control-free rune arrays")
	s.declRunePreds()
	et := types.Typ[types.Rune]
	key := elemKey(et, nil, "")
	srt := arrSort(sInt, arrSort(sInt, sInt))
	inner := s.c.freshConst("runes", arrSort(sInt, sInt))
	s.heapSet(key, srt, sto(s.heapGet(key, srt), b, inner))
	s.assume(implies(app("noNL", x.S), app("runesNoNL", inner)))
	s.assume(implies(app("clean", x.S), app("runesClean", inner)))
	s.assume(implies(app("digits", x.S), app("runesDigits", inner)))
	s.assume(implies(app("clean", x.S), eq(n, app("+", app("vlen", x.S), app("nl", x.S)))))
	s.assume(implies(eq(x.S, "emp"), eq(n, "0")))
	s.assume(implies(app(">=", app("blen", x.S), "1"), app(">=", n, "1")))
	if s.c.cellsMode {
		s.declCells()
		s.assume(implies(app("oneRune", x.S), and(eq(n, "1"), eq(sel(inner, "0"), app("runeOf", x.S)))))
	}
	return r
}

func litFacts(name, lit string) []string {
	return strLitFacts(name, lit)
}

func (e *Engine) pureExternal(full string) bool {
	return pureExternals[full]
}

// external functions assumed to have no effect on memory the repository can observe, to terminate and not to
// panic; their results are unconstrained unless a library model says more. Each use is listed in the evidence.
var pureExternals = map[string]bool{
	"time.Parse": true, "time.Since": true, "(time.Time).After": true, "(time.Time).Format": true, "(time.Duration).Hours": true, "(time.Duration).Minutes": true,
	"net/url.Parse": true, "(*net/url.URL).String": true, "(*net/url.URL).ResolveReference": true, "(*net/url.URL).Hostname": true, "(*net/url.URL).Port": true, "(*net/url.URL).RequestURI": true,
	"(net/url.Values).Encode": true, "net.JoinHostPort": true,
	"(*regexp.Regexp).FindStringSubmatch": true, "(*regexp.Regexp).FindAllStringSubmatch": true, "(*regexp.Regexp).ReplaceAllString": true, "regexp.MustCompile": true,
	"os.Getenv": true, "os.Open": true, "(*os/exec.Cmd).CombinedOutput": true, "(github.com/BurntSushi/toml.MetaData).Undecoded": true, "(*github.com/BurntSushi/toml.MetaData).Undecoded": true, "(*os.File).WriteString": true,
}

func (e *Engine) initLib() {
	e.lib = map[string]libModel{}
	e.libEffects = map[string][]string{}
	registerLib(e)
	for _, f := range extraLib {
		f(e)
	}
}

var extraLib []func(*Engine)
