package main

import (
	"fmt"
	"go/constant"
	"go/types"
	"strconv"
	"strings"

	"golang.org/x/tools/go/ssa"
)

const errTag = "0"

func (s *State) mkErr(eid string) string {
	return app("mkI", errTag, app("pErr", eid))
}

// newErr creates a fresh non-nil error value.
func (s *State) newErr(hint string) (Val, string) {
	eid := s.newRef()
	v := Val{T: errorT, S: s.define("err", sIface, s.mkErr(eid))}
	return v, eid
}

var errorT = types.Universe.Lookup("error").Type()

// sentinels are package-level error variables of the repository, initialised once by errors.New.
func (e *Engine) sentinels() []*ssa.Global {
	if e.sentinelList != nil {
		return e.sentinelList
	}
	for _, p := range e.prog.AllPackages() {
		path := p.Pkg.Path()
		if !(path == "servitor" || strings.HasPrefix(path, "servitor/")) {
			continue
		}
		for _, m := range p.Members {
			if g, ok := m.(*ssa.Global); ok && types.Identical(derefType(g.Type()), errorT) {
				e.sentinelList = append(e.sentinelList, g)
			}
		}
	}
	// os.ErrNotExist is used by config.parse
	if p := e.pkgByName["os"]; p != nil {
		if g, ok := p.Members["ErrNotExist"].(*ssa.Global); ok {
			e.sentinelList = append(e.sentinelList, g)
		}
	}
	sortGlobals(e.sentinelList)
	return e.sentinelList
}

func sortGlobals(gs []*ssa.Global) {
	for i := 1; i < len(gs); i++ {
		for j := i; j > 0 && gs[j].String() < gs[j-1].String(); j-- {
			gs[j], gs[j-1] = gs[j-1], gs[j]
		}
	}
}

func (e *Engine) sentinelID(g *ssa.Global) (int, bool) {
	for i, x := range e.sentinels() {
		if x == g {
			return -(i + 1), true
		}
	}
	return 0, false
}

func (s *State) sentinelTerms() []string {
	var out []string
	for i := range s.c.eng.sentinels() {
		out = append(out, intLit(int64(-(i + 1))))
	}
	return out
}

// varargs reads the elements of a variadic []T argument whose length is statically known.
func (s *State) varargs(v Val) ([]Val, bool) {
	if v.Sl == nil {
		return nil, true
	}
	n, err := strconv.Atoi(v.Sl.Len)
	if err != nil {
		return nil, false
	}
	et := v.T.Underlying().(*types.Slice).Elem()
	var out []Val
	for i := 0; i < n; i++ {
		out = append(out, s.loadAddr(s.sliceElemAddr(v, intLit(int64(i)))))
	}
	_ = et
	return out, true
}

func constString(v ssa.Value) (string, bool) {
	if c, ok := v.(*ssa.Const); ok && c.Value != nil && c.Value.Kind() == constant.String {
		return constant.StringVal(c.Value), true
	}
	return "", false
}

// operandClean: the textual form of an interface operand printed with %s/%v is free of control characters.
func (s *State) operandClean(v Val) string {
	if kindOf(v.T) != kIface {
		switch kindOf(v.T) {
		case kStr:
			return app("clean", v.S)
		case kInt, kBool, kFloat:
			return "true"
		}
		return "false"
	}
	pay := app("ipay", v.S)
	return or(eq(v.S, "nilI"),
		and(app("(_ is pStr)", pay), app("clean", app("pstr", pay))),
		and(app("(_ is pErr)", pay), app("errClean", app("perr", pay))),
		app("(_ is pInt)", pay), app("(_ is pBool)", pay), app("(_ is pNum)", pay))
}

type fmtVerb struct {
	verb byte
	arg  int
}

func parseFormat(f string) (verbs []fmtVerb, literal string) {
	arg := 0
	var lit strings.Builder
	for i := 0; i < len(f); i++ {
		if f[i] != '%' {
			lit.WriteByte(f[i])
			continue
		}
		i++
		for i < len(f) && strings.IndexByte("+-# 0123456789.", f[i]) >= 0 {
			i++
		}
		if i >= len(f) {
			break
		}
		if f[i] == '%' {
			lit.WriteByte('%')
			continue
		}
		verbs = append(verbs, fmtVerb{f[i], arg})
		arg++
	}
	return verbs, lit.String()
}

func (s *State) fmtClean(site ssa.Instruction, format ssa.Value, args Val) (cleanTerm string, wraps []Val, ok bool) {
	f, isConst := constString(format)
	if !isConst {
		return "false", nil, false
	}
	ops, known := s.varargs(args)
	if !known {
		return "false", nil, false
	}
	verbs, lit := parseFormat(f)
	parts := []string{boolLit(refClean(lit))}
	for _, vb := range verbs {
		if vb.arg >= len(ops) {
			continue
		}
		switch vb.verb {
		case 'd', 'T', 'q', 't', 'x', 'c':
		case 'w':
			wraps = append(wraps, ops[vb.arg])
			parts = append(parts, s.operandClean(ops[vb.arg]))
		default:
			parts = append(parts, s.operandClean(ops[vb.arg]))
		}
	}
	return and(parts...), wraps, true
}

func registerLib(e *Engine) {
	L := e.lib
	L["fmt.Sprintf"] = func(s *State, site ssa.Instruction, args []Val) []Val {
		r := s.freshVal(strT, "sprintf")
		s.strBasics(r.S)
		var fv ssa.Value
		if c, ok := site.(ssa.CallInstruction); ok {
			fv = c.Common().Args[0]
		}
		cl, _, ok := s.fmtClean(site, fv, args[1])
		if ok {
			s.assume(implies(cl, app("clean", r.S)))
			if f, _ := constString(fv); !strings.Contains(f, "\n") && !strings.ContainsAny(strings.ReplaceAll(f, "%d", ""), "%") {
				s.assume(app("noNL", r.S))
			}
		}
		// a constant format made of literal text, plain %s verbs applied to strings and plain %d verbs applied to
		// ints IS the concatenation of those pieces (strconv.Itoa for the ints): the same string a chain of + builds
		if f, isConst := constString(fv); isConst {
			if ops, known := s.varargs(args[1]); known {
				if cat, cond, ok := s.sprintfAsCat(f, ops); ok {
					s.used("fmt.Sprintf with a constant format of literal text, plain %s applied to strings and plain %d applied to ints: the concatenation of the pieces")
					s.assume(implies(cond, eq(r.S, cat.S)))
				}
			}
		}
		return []Val{r}
	}
	L["fmt.Errorf"] = func(s *State, site ssa.Instruction, args []Val) []Val {
		r, eid := s.newErr("errorf")
		var fv ssa.Value
		if c, ok := site.(ssa.CallInstruction); ok {
			fv = c.Common().Args[0]
		}
		cl, wraps, ok := s.fmtClean(site, fv, args[1])
		if ok {
			s.assume(eq(app("errClean", eid), cl))
		}
		for _, t := range s.sentinelTerms() {
			var alts []string
			for _, w := range wraps {
				alts = append(alts, errIsTerm(w.S, s.mkErr(t)))
			}
			if ok {
				s.assume(eq(app("errIs", eid, t), or(alts...)))
			}
		}
		return []Val{r}
	}
	L["errors.New"] = func(s *State, site ssa.Instruction, args []Val) []Val {
		r, eid := s.newErr("errnew")
		s.assume(eq(app("errClean", eid), app("clean", args[0].S)))
		s.assume(eq(app("errMsg", eid), args[0].S))
		for _, t := range s.sentinelTerms() {
			s.assume(not(app("errIs", eid, t)))
		}
		return []Val{r}
	}
	L["errors.Is"] = func(s *State, site ssa.Instruction, args []Val) []Val {
		return []Val{{T: boolT, S: s.define("is", sBool, errIsTerm(args[0].S, args[1].S))}}
	}
	L["errors.Join"] = func(s *State, site ssa.Instruction, args []Val) []Val {
		ops, known := s.varargs(args[0])
		if !known {
			return []Val{s.freshVal(errorT, "join")}
		}
		var anyNon []string
		for _, o := range ops {
			anyNon = append(anyNon, not(eq(o.S, "nilI")))
		}
		eid := s.newRef()
		r := Val{T: errorT, S: s.define("join", sIface, ite(or(anyNon...), s.mkErr(eid), "nilI"))}
		var cl []string
		for _, o := range ops {
			cl = append(cl, s.operandClean(o))
		}
		s.assume(eq(app("errClean", eid), and(cl...)))
		for _, t := range s.sentinelTerms() {
			var alts []string
			for _, o := range ops {
				alts = append(alts, errIsTerm(o.S, s.mkErr(t)))
			}
			s.assume(eq(app("errIs", eid, t), or(alts...)))
		}
		return []Val{r}
	}
	L["error.Error"] = func(s *State, site ssa.Instruction, args []Val) []Val {
		r := s.freshVal(strT, "errtext")
		s.strBasics(r.S)
		eid := app("perr", app("ipay", args[0].S))
		s.assume(eq(r.S, app("errMsg", eid)))
		s.assume(eq(app("clean", r.S), app("errClean", eid)))
		return []Val{r}
	}
	L["os.Exit"] = func(s *State, site ssa.Instruction, args []Val) []Val {
		s.assume("false")
		s.dead = true
		return nil
	}
	L["net/url.Parse"] = func(s *State, site ssa.Instruction, args []Val) []Val {
		s.used("net/url.Parse: returns exactly one of (non-nil URL, nil) or (nil, non-nil error); no other effect")
		sig := site.(ssa.CallInstruction).Common().Signature()
		u := s.freshVal(sig.Results().At(0).Type(), "url")
		errv, eid := s.newErr("urlparse")
		for _, t := range s.sentinelTerms() {
			s.assume(not(app("errIs", eid, t)))
		}
		ok := s.c.freshConst("urlok", sBool)
		s.assume(eq(ok, not(eq(u.S, "0"))))
		e := Val{T: errorT, S: s.define("urlerr", sIface, ite(ok, "nilI", errv.S))}
		return []Val{u, e}
	}
	L["os/exec.Command"] = func(s *State, site ssa.Instruction, args []Val) []Val {
		s.used("os/exec.Command(name, args...): records argv = [name]+args verbatim (no shell); returns a fresh *Cmd with Stdin == nil")
		sig := site.(ssa.CallInstruction).Common().Signature()
		pt := sig.Results().At(0).Type()
		cmd := s.allocObj(derefType(pt), pt)
		s.ghost["exec_name"] = args[0]
		s.ghost["exec_args"] = args[1]
		s.ghost["exec_cmd"] = cmd
		cnt := "0"
		if v, ok := s.ghost["exec_count"]; ok {
			cnt = v.S
		}
		s.ghost["exec_count"] = Val{T: intT, S: addT(cnt, "1")}
		return []Val{cmd}
	}
	L["github.com/BurntSushi/toml.DecodeFile"] = func(s *State, site ssa.Instruction, args []Val) []Val {
		s.used("toml.DecodeFile(path, &cfg): on return every field of cfg holds an arbitrary value of its Go type (that is the adversary); no other effect")
		sig := site.(ssa.CallInstruction).Common().Signature()
		// the target is the pointer boxed in args[1]
		if mi, ok := site.(ssa.CallInstruction).Common().Args[1].(*ssa.MakeInterface); ok {
			pv := s.valOf(mi.X)
			if pt := derefType(pv.T); pt != nil && kindOf(pt) == kStruct && pv.S != "" {
				s.havocObject(pv.S, pt)
			}
		} else {
			s.havocAll("toml.DecodeFile target unknown")
		}
		md := s.freshVal(sig.Results().At(0).Type(), "tomlmeta")
		errv, eid := s.newErr("toml")
		_ = eid
		isNil := s.c.freshConst("tomlok", sBool)
		e := Val{T: errorT, S: s.define("tomlerr", sIface, ite(isNil, "nilI", errv.S))}
		return []Val{md, e}
	}
	L["github.com/hashicorp/golang-lru/v2.New"] = func(s *State, site ssa.Instruction, args []Val) []Val {
		s.used("lru.New(size): size > 0 gives (non-nil cache, nil); size <= 0 gives (nil, error)")
		sig := site.(ssa.CallInstruction).Common().Signature()
		s.oblige("lib-pre:lru.New", site, s.c.ordinal(site, "lib-pre:lru.New"), app(">", args[0].S, "0"), "lru.New: cache size must be positive (otherwise the cache is nil and the first fetch dereferences it)", false)
		pt := sig.Results().At(0).Type()
		ok := app(">", args[0].S, "0")
		r := s.newRef()
		c := Val{T: pt, S: s.define("lru", sInt, ite(ok, r, "0"))}
		errv, _ := s.newErr("lru")
		return []Val{c, {T: errorT, S: s.define("lruerr", sIface, ite(ok, "nilI", errv.S))}}
	}
	L["(*net/url.URL).String"] = func(s *State, site ssa.Instruction, args []Val) []Val {
		s.used("(*url.URL).String(): a function of the URL object (URLs are not mutated after they are parsed); result is control-character free (escaped)")
		r := s.freshStr("urlstr")
		s.assume(eq(r.S, app("urlStr", args[0].S)))
		s.assume(and(app("clean", r.S), app("noNL", r.S), app("noCTL", r.S)))
		return []Val{r}
	}
	L["golang.org/x/exp/slices.Contains"] = func(s *State, site ssa.Instruction, args []Val) []Val {
		s.used("slices.Contains(xs, v) == exists i :: xs[i] == v (pure)")
		xs, v := args[0], args[1]
		if xs.Sl == nil || kindOf(v.T) == kBad || len(flatten(v)) != 1 {
			return []Val{s.freshVal(boolT, "contains")}
		}
		et := xs.T.Underlying().(*types.Slice).Elem()
		k := fmt.Sprintf("k!%d", s.c.fresh)
		s.c.fresh++
		el := s.pureLoad(&Addr{Space: "elem", Ref: xs.Sl.Base, Idx: k, Elem: et, T: et})
		r := s.c.freshConst("contains", sBool)
		ex := fmt.Sprintf("(exists ((%s Int)) (and (<= %s %s) (< %s %s) (= %s %s)))", k, xs.Sl.Off, k, k, app("+", xs.Sl.Off, xs.Sl.Len), el.S, v.S)
		// a statically known length is unrolled so that no quantifier is needed
		if n, ok := litInt(xs.Sl.Len); ok && n <= 16 {
			var alts []string
			for i := int64(0); i < n; i++ {
				e := s.pureLoad(&Addr{Space: "elem", Ref: xs.Sl.Base, Idx: ixT(xs.Sl.Off, intLit(i)), Elem: et, T: et})
				alts = append(alts, eq(e.S, v.S))
			}
			ex = or(alts...)
		}
		s.assume(eq(r, ex))
		return []Val{{T: boolT, S: r}}
	}
	for name, bound := range map[string]float64{"(time.Duration).Hours": 2.6e6, "(time.Duration).Minutes": 1.6e8, "(time.Duration).Seconds": 9.3e9} {
		bound := bound
		name := name
		L[name] = func(s *State, site ssa.Instruction, args []Val) []Val {
			s.used(name + ": a finite float64 bounded by the int64 nanosecond range")
			r := s.freshVal(types.Typ[types.Float64], "dur")
			s.assume(and(app("fp.leq", fpLit(-bound), r.S), app("fp.leq", r.S, fpLit(bound))))
			return []Val{r}
		}
	}
	L["(time.Time).After"] = func(s *State, site ssa.Instruction, args []Val) []Val {
		s.used("(time.Time).After(u): compares the instants the two values denote (a total order on instants)")
		s.c.declare("instantOf", "(declare-fun instantOf (Int Int) Int)")
		t, u := args[0], args[1]
		if len(t.Flds) < 2 || len(u.Flds) < 2 {
			return []Val{s.freshVal(boolT, "after")}
		}
		return []Val{{T: boolT, S: s.define("after", sBool, app(">", app("instantOf", t.Flds[0].S, t.Flds[1].S), app("instantOf", u.Flds[0].S, u.Flds[1].S)))}}
	}
	// the UI's single mutex: ghost flag `held` (DESIGN C08). Lock while held would self-deadlock (sync.Mutex is
	// not reentrant); Unlock while not held panics.
	L["(*sync.Mutex).Lock"] = func(s *State, site ssa.Instruction, args []Val) []Val {
		s.oblige("lock", site, s.c.ordinal(site, "lock"), not(s.held), "Lock() while this goroutine already holds the mutex (self-deadlock)", false)
		s.c.usesLock = true
		s.held = "true"
		if t, desc, ok := s.monitorInv(site); ok {
			s.assume(t)
			s.c.assumed["monitor invariant "+desc+" holds whenever the mutex is free (established by the constructor, re-established before every Unlock: proved)"] = true
		}
		return nil
	}
	L["(*sync.Mutex).Unlock"] = func(s *State, site ssa.Instruction, args []Val) []Val {
		s.oblige("lock", site, s.c.ordinal(site, "lock"), s.held, "Unlock() of a mutex this goroutine does not hold", false)
		if _, desc, ok := s.monitorInv(site); ok {
			mon, obj := s.monitorOf(site)
			p := s.c.eng.contracts.Preds[mon.Pred]
			for i, part := range unfoldConj(p.Body, s.c.eng.contracts.Preds, mon.Pkg, 0) {
				x := &EvalCtx{s: s, vars: map[string]Val{p.Params[0]: obj}, pkg: s.c.eng.pkgByName[mon.Pkg]}
				v := x.eval(part)
				s.c.specErrors(x, mon.Where)
				s.oblige("monitor-inv", site, i+1, v.S, desc+" must hold again when the mutex is released: "+part.String(), true)
			}
		}
		s.held = "false"
		return nil
	}
	// WaitGroup: goroutines joined by a WaitGroup are executed at their spawn point, so the counter is an exact
	// ghost: every Add must have been matched by a Done when Wait is reached (else Wait blocks forever), and a
	// loop iteration must leave it unchanged (checked at the back edge)
	wgKey := func(args []Val) string { return "wg|" + args[0].S }
	wgGet := func(s *State, k string) string {
		if v, ok := s.ghost[k]; ok {
			return v.S
		}
		return "0"
	}
	L["(*sync.WaitGroup).Add"] = func(s *State, site ssa.Instruction, args []Val) []Val {
		k := wgKey(args)
		s.ghost[k] = Val{T: intT, S: addT(wgGet(s, k), args[1].S)}
		return nil
	}
	L["(*sync.WaitGroup).Done"] = func(s *State, site ssa.Instruction, args []Val) []Val {
		k := wgKey(args)
		s.ghost[k] = Val{T: intT, S: subT(wgGet(s, k), "1")}
		return nil
	}
	L["(*sync.WaitGroup).Wait"] = func(s *State, site ssa.Instruction, args []Val) []Val {
		k := wgKey(args)
		s.oblige("wg-balance", site, s.c.ordinal(site, "wg-balance"), eq(wgGet(s, k), "0"), "WaitGroup counter is not zero at Wait: some path through a joined goroutine (or the spawner) skips Done, so Wait blocks forever", false)
		return nil
	}
	registerStrings(e)
}

// havocObject: every field of the object (recursively through nested struct values) becomes arbitrary.
func (s *State) havocObject(ref string, t types.Type) {
	st := t.Underlying().(*types.Struct)
	for i := 0; i < st.NumFields(); i++ {
		ft := st.Field(i).Type()
		fa := &Addr{Space: "fld", Struct: t, Field: i, Ref: ref, T: ft}
		if kindOf(ft) == kStruct {
			inner := s.resolve(fa)
			s.havocObject(inner.Ref, ft)
			continue
		}
		if kindOf(ft) == kArray {
			continue
		}
		s.storeAddr(fa, s.freshVal(ft, "decoded_"+st.Field(i).Name()))
	}
}

// monitorOf finds the monitor declaration and the protected object for a Lock/Unlock whose receiver was loaded
// from the declared mutex field.
func (s *State) monitorOf(site ssa.Instruction) (*Monitor, Val) {
	recv := callArg(site, 0)
	u, ok := recv.(*ssa.UnOp)
	if !ok {
		return nil, Val{}
	}
	fa, ok := u.X.(*ssa.FieldAddr)
	if !ok {
		return nil, Val{}
	}
	pt := derefType(fa.X.Type())
	n, ok := pt.(*types.Named)
	if !ok || n.Obj().Pkg() == nil {
		return nil, Val{}
	}
	fname := pt.Underlying().(*types.Struct).Field(fa.Field).Name()
	for i := range s.c.eng.contracts.Monitors {
		m := &s.c.eng.contracts.Monitors[i]
		if m.Type == n.Obj().Name() && m.Pkg == n.Obj().Pkg().Name() && m.Field == fname {
			return m, s.valOf(fa.X)
		}
	}
	return nil, Val{}
}

func (s *State) monitorInv(site ssa.Instruction) (string, string, bool) {
	mon, obj := s.monitorOf(site)
	if mon == nil {
		return "", "", false
	}
	p := s.c.eng.contracts.Preds[mon.Pred]
	if p == nil || len(p.Params) != 1 {
		return "", "", false
	}
	x := &EvalCtx{s: s, vars: map[string]Val{p.Params[0]: obj}, pkg: s.c.eng.pkgByName[mon.Pkg]}
	v := x.eval(p.Body)
	s.c.specErrors(x, mon.Where)
	return v.S, mon.Pred + "(" + mon.Type + ")", true
}

// sprintfAsCat: the concatenation a format of literal text, %s and %d denotes, and the condition (on the dynamic
// types of the operands) under which it does.
func (s *State) sprintfAsCat(f string, ops []Val) (Val, string, bool) {
	var pieces []Val
	var conds []string
	var lit strings.Builder
	flush := func() {
		if lit.Len() > 0 {
			pieces = append(pieces, Val{T: strT, S: s.c.lit(lit.String())})
			lit.Reset()
		}
	}
	arg := 0
	for i := 0; i < len(f); i++ {
		if f[i] != '%' {
			lit.WriteByte(f[i])
			continue
		}
		i++
		if i >= len(f) {
			return Val{}, "", false
		}
		switch f[i] {
		case '%':
			lit.WriteByte('%')
		case 's', 'd':
			if arg >= len(ops) || kindOf(ops[arg].T) != kIface {
				return Val{}, "", false
			}
			v := ops[arg]
			arg++
			flush()
			pay := app("ipay", v.S)
			if f[i] == 's' {
				conds = append(conds, and(app("(_ is mkI)", v.S), app("(_ is pStr)", pay), eq(app("itag", v.S), fmt.Sprint(s.c.eng.tagOf(strT)))))
				pieces = append(pieces, Val{T: strT, S: app("pstr", pay)})
			} else {
				// %d prints every integer kind in decimal, whatever its named type
				conds = append(conds, and(app("(_ is mkI)", v.S), app("(_ is pInt)", pay)))
				n := app("pint", pay)
				s.c.declare("itoa", "(declare-fun itoa (Int) Str)")
				it := app("itoa", n)
				s.assume(implies(app("<=", "0", n), and(app("digits", it), app(">=", app("blen", it), "1"))))
				s.assume(and(app("clean", it), app("noNL", it), app("noCTL", it), eq(app("vlen", it), app("blen", it))))
				pieces = append(pieces, Val{T: strT, S: it})
			}
		default:
			return Val{}, "", false
		}
	}
	flush()
	if arg != len(ops) {
		return Val{}, "", false
	}
	if len(pieces) == 0 {
		return Val{T: strT, S: "emp"}, "true", true
	}
	// the same association a chain of + has: ((p0 + p1) + p2) + ...
	acc := pieces[0]
	for _, p := range pieces[1:] {
		acc = s.cat(acc, p)
	}
	return acc, and(conds...), true
}
