package main

import (
	"os"
	"strconv"
	"strings"
	"testing"
)

// Self-test of the cell-language rule for concatenations (cellRuns): for every string over a small alphabet,
// every split into up to three parts and every choice of which parts are opaque, each accepting run of the
// recogniser must state something true: if the class conditions hold of the opaque parts (evaluated with the
// reference predicates), the whole string is in the cell language and its visible / non-blank cell counts are
// the predicted sums. Also: whenever the whole is in L and all parts are literals, some run accepts.
func TestCellAutomatonSound(t *testing.T) {
	alphabet := []string{"\x1b", "[", "0", "1", ";", "m", "a", " ", "\n"}
	maxLen := 4 // GOVC_SELFTEST_MAXLEN=6 takes about five minutes (130 million cases)
	if v, err := strconv.Atoi(os.Getenv("GOVC_SELFTEST_MAXLEN")); err == nil && v > 0 {
		maxLen = v
	}
	var all []string
	var rec func(p string, d int)
	rec = func(p string, d int) {
		all = append(all, p)
		if d == maxLen {
			return
		}
		for _, a := range alphabet {
			rec(p+a, d+1)
		}
	}
	rec("", 0)
	evalPred := func(c cellCond, val map[string]string) bool {
		s := val[c.term]
		if c.nonEmp && s == "" {
			return false
		}
		switch c.pred {
		case "wf":
			ok, _ := refCells(s)
			return ok
		case "sgrs":
			return refSgrs(s)
		case "p1":
			return refP1(s)
		case "sgr":
			return refSgr(s)
		}
		return false
	}
	measure := func(v string, val map[string]string) int {
		switch {
		case v == "one":
			return 1
		case strings.HasPrefix(v, "vlen:"):
			_, n := refCells(val[v[5:]])
			return n
		case strings.HasPrefix(v, "nsc:"):
			_, _, ns := refLines(val[v[4:]])
			return ns
		}
		return 0
	}
	checked, accepted := 0, 0
	for _, s := range all {
		wholeOK, wholeVis := refCells(s)
		_, _, wholeNs := refLines(s)
		for i := 0; i <= len(s); i++ {
			for j := i; j <= len(s); j++ {
				pieces := []string{s[:i], s[i:j], s[j:]}
				for mask := 0; mask < 8; mask++ {
					var parts []strAtom
					val := map[string]string{}
					for k, pc := range pieces {
						if pc == "" && mask&(1<<k) == 0 {
							continue
						}
						if mask&(1<<k) != 0 {
							name := string(rune('x' + k))
							val[name] = pc
							parts = append(parts, strAtom{term: name})
						} else {
							if len(parts) > 0 && parts[len(parts)-1].lit {
								parts[len(parts)-1].text += pc
							} else {
								parts = append(parts, strAtom{lit: true, text: pc})
							}
						}
					}
					checked++
					anyAccept := false
					for _, run := range cellRuns(parts) {
						holds := true
						for _, c := range run.cc {
							if !evalPred(c, val) {
								holds = false
							}
						}
						if !holds {
							continue
						}
						if run.st == stZ {
							anyAccept = true
							vis, ns := run.n, run.ns
							for _, v := range run.vis {
								vis += measure(v, val)
							}
							for _, v := range run.nsp {
								ns += measure(v, val)
							}
							if !wholeOK || vis != wholeVis || ns != wholeNs {
								t.Fatalf("unsound run for %q split %q mask %d: claims wf with vlen %d nsc %d; reference wf=%v vlen=%d nsc=%d", s, pieces, mask, vis, ns, wholeOK, wholeVis, wholeNs)
							}
						}
						if run.onlySgr && (run.st == stS || run.st == stZ) && !refSgrs(s) {
							t.Fatalf("unsound sgrs claim for %q split %q mask %d", s, pieces, mask)
						}
					}
					if mask == 0 && wholeOK && !anyAccept {
						t.Fatalf("incomplete on literals: %q split %q is in the cell language but no run accepts", s, pieces)
					}
					if anyAccept {
						accepted++
					}
				}
			}
		}
	}
	t.Logf("SELFTEST cell automaton: %d (string, split, opacity) cases, %d with an accepting run; no unsound claim", checked, accepted)
}
