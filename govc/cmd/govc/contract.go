package main

import (
	"bufio"
	"fmt"
	"os"
	"path/filepath"
	"regexp"
	"strconv"
	"strings"
)

type Clause struct {
	Expr  Expr
	Src   string
	Where string // file:line
}

type Contract struct {
	Allows        []string // `allow <rule>`: closed-world rules that name this function as a permitted place
	Owns          []string // `owns Type.field ...`: fields this (goroutine) body may touch without the mutex (protocol-owned)
	NoLockExit    bool     // do not generate the automatic lock-balance assertion at returns
	Locked        bool     // `locked`: the function is entered (and left) with the UI mutex held
	Arith2        string   // "heapwf": state heap well-formedness (all stored refs < alloc) before every allocation
	Deterministic bool
	StoreOnly     []StoreOnly // `storeonly T.field expr`: every store to that field in this function goes through the object expr
	Order         bool        // `strorder`: the order-preserving content homomorphism nsx (blank cells removed) is in play
	Prov          bool        // `provenance`: values embedded in a JSON document inherit its servedBy (axiom about decoded documents)
	Cells         bool        // `cells`: the function handles the match lists of ansi.expand (cell model on loads)
	Lines         bool        // `strlines`: line-measure facts (mxl/fstl/lstl) are emitted for its strings
	Key           string      // pkg.Func | pkg.Type.Method | pkg.Func$1
	Kind          string      // func | iface | field
	Header        string
	Params        []string // parameter names from header (iface/field contracts)
	Requires      []Clause
	Ensures       []Clause
	Assigns       []Expr
	HasAssign     bool
	LoopInv       map[int][]Clause
	LoopDec       map[int]Clause
	Arith         string
	Trusted       string // non-empty: body not verified, reason
	Inline        bool
	Where         string
	Props         []string
	CallSites     []CallAssert
	Exits         []Clause         // `exit <expr>`: must hold at every return, with locals in scope
	BackEdges     map[int][]Clause // `loop N backedge <expr>`: must hold whenever the loop body jumps back
	Defines       string           // ufunc that denotes this (pure, deterministic) function's result
	Witness       []Clause         // extra entry-state terms reported with counterexamples
}

// StoreOnly: `storeonly T.field <expr>` -- ownership protocol of a goroutine: it may write that field only of the
// object <expr> denotes (e.g. the page whose continuation it owns).
type StoreOnly struct {
	Field  string // Type.field
	Clause Clause
}

// CallAssert: `callsite <callee-key> <expr>` -- at every call of <callee> inside the function, <expr> must hold;
// it may mention the callee's parameters by name, the caller's parameters and its source-level locals.
type CallAssert struct {
	Callee string
	Clause Clause
}

type UFDecl struct {
	Name   string
	Params []string
	Result string
	Pkg    string
	Where  string
}

type Pred struct {
	Name   string
	Params []string
	Body   Expr
	Pkg    string
	Src    string
}

type Immutable struct {
	Pkg, Kind, Name, Where string
}

type TypeInv struct {
	Pkg, Type, Pred, Where string
}

type GlobalInv struct {
	Pkg   string
	Expr  Expr
	Src   string
	Where string
}

// BoxInv: `//@ boxinv T pred` -- pred(*p) must hold whenever a T / *T is converted to an interface; methods of
// T may assume it of their receiver (the value is not modified after it has been handed out).
type BoxInv struct {
	Pkg, Type, Pred, Where string
}

// Guarded: `//@ guarded T` -- every field of struct type T may be read or written only while the ghost flag
// `held` is set (the goroutine holds the UI mutex), or on an object allocated in the same activation.
type Guarded struct {
	Pkg, Type, Where string
}

// Monitor: `//@ monitor T.field pred` -- the mutex in that field protects pred(object): it may be assumed right
// after Lock() and must be re-established before every Unlock().
type Monitor struct {
	Pkg, Type, Field, Pred, Where string
}

type ContractSet struct {
	Tracked    []Guarded // `//@ tracked T`: a ghost set records every allocated T (spec: allocated(p))
	Monitors   []Monitor
	Guardeds   []Guarded
	BoxInvs    []BoxInv
	GlobalInvs []GlobalInv
	TypeInvs   []TypeInv
	UFuncs     []UFDecl
	Immutables []Immutable
	Funcs      map[string]*Contract
	Preds      map[string]*Pred
	Errors     []string
	Files      []string
}

var hdrRe = regexp.MustCompile(`^func\s+(?:\(\s*\w*\s*\*?\s*(\w+)(?:\[[^\]]*\])?\s*\)\s*)?([\w$#]+)`)

type pending struct {
	kind string // requires ensures assigns inv dec pred
	n    int
	text string
	at   string
	pred *Pred
}

func loadContracts(repo string) *ContractSet {
	cs := &ContractSet{Funcs: map[string]*Contract{}, Preds: map[string]*Pred{}}
	files, _ := filepath.Glob(filepath.Join(repo, "*", "zz_contracts_verif.go"))
	root, _ := filepath.Glob(filepath.Join(repo, "zz_contracts_verif.go"))
	files = append(files, root...)
	for _, f := range files {
		cs.loadFile(f, repo)
	}
	return cs
}

func (cs *ContractSet) errf(format string, a ...any) {
	cs.Errors = append(cs.Errors, fmt.Sprintf(format, a...))
}

func (cs *ContractSet) loadFile(path, repo string) {
	fh, err := os.Open(path)
	if err != nil {
		cs.errf("%v", err)
		return
	}
	defer fh.Close()
	cs.Files = append(cs.Files, path)
	rel := strings.TrimPrefix(path, repo+"/")
	pkg := ""
	var cur *Contract
	var pend *pending
	flush := func() {
		if pend == nil {
			return
		}
		p := pend
		pend = nil
		text := strings.TrimSpace(p.text)
		switch p.kind {
		case "pred":
			e, err := parseSpec(text)
			if err != nil {
				cs.errf("%s: %v", p.at, err)
				return
			}
			p.pred.Body = e
			p.pred.Src = text
			cs.Preds[p.pred.Name] = p.pred
			return
		}
		if cur == nil {
			cs.errf("%s: clause outside a contract", p.at)
			return
		}
		if p.kind == "assigns" {
			cur.HasAssign = true
			if text == "" || text == "nothing" {
				return
			}
			for _, part := range splitTop(text) {
				e, err := parseSpec(part)
				if err != nil {
					cs.errf("%s: %v", p.at, err)
					continue
				}
				cur.Assigns = append(cur.Assigns, e)
			}
			return
		}
		e, err := parseSpec(text)
		if err != nil {
			cs.errf("%s: %v", p.at, err)
			return
		}
		switch p.kind {
		case "requires":
			for _, c := range splitConj(e) {
				cur.Requires = append(cur.Requires, Clause{c, c.String(), p.at})
			}
		case "ensures":
			for _, c := range splitConj(e) {
				cur.Ensures = append(cur.Ensures, Clause{c, c.String(), p.at})
			}
		case "inv":
			for _, c := range splitConj(e) {
				cur.LoopInv[p.n] = append(cur.LoopInv[p.n], Clause{c, c.String(), p.at})
			}
		case "dec":
			cur.LoopDec[p.n] = Clause{e, text, p.at}
		}
	}
	sc := bufio.NewScanner(fh)
	sc.Buffer(make([]byte, 1<<20), 1<<20)
	ln := 0
	for sc.Scan() {
		ln++
		line := strings.TrimSpace(sc.Text())
		if strings.HasPrefix(line, "package ") {
			pkg = strings.TrimSpace(strings.TrimPrefix(line, "package "))
			continue
		}
		if !strings.HasPrefix(line, "//@") {
			continue
		}
		body := strings.TrimSpace(strings.TrimPrefix(line, "//@"))
		if body == "" || strings.HasPrefix(body, "#") {
			continue
		}
		at := fmt.Sprintf("%s:%d", rel, ln)
		word, rest := splitWord(body)
		switch word {
		case "func", "iface", "field":
			flush()
			cur = &Contract{Kind: word, Header: body, LoopInv: map[int][]Clause{}, LoopDec: map[int]Clause{}, BackEdges: map[int][]Clause{}, Where: at}
			switch word {
			case "func":
				m := hdrRe.FindStringSubmatch(body)
				if m == nil {
					cs.errf("%s: cannot parse function header %q", at, body)
					cur = nil
					continue
				}
				if m[1] != "" {
					cur.Key = pkg + "." + m[1] + "." + m[2]
				} else {
					cur.Key = pkg + "." + m[2]
				}
			default:
				name := rest
				if i := strings.Index(rest, "("); i >= 0 {
					name = rest[:i]
					ps := rest[i+1:]
					if j := strings.Index(ps, ")"); j >= 0 {
						ps = ps[:j]
					}
					for _, p := range strings.Split(ps, ",") {
						p = strings.TrimSpace(p)
						if p == "" {
							continue
						}
						w, _ := splitWord(p)
						cur.Params = append(cur.Params, w)
					}
				}
				cur.Key = pkg + "." + strings.TrimSpace(name)
			}
			if _, dup := cs.Funcs[cur.Key]; dup {
				cs.errf("%s: duplicate contract for %s", at, cur.Key)
			}
			cs.Funcs[cur.Key] = cur
		case "monitor":
			flush()
			tf, pn := splitWord(rest)
			parts := strings.SplitN(tf, ".", 2)
			if len(parts) == 2 {
				cs.Monitors = append(cs.Monitors, Monitor{pkg, parts[0], parts[1], pn, at})
			} else {
				cs.errf("%s: monitor Type.field pred expected", at)
			}
		case "tracked":
			flush()
			cs.Tracked = append(cs.Tracked, Guarded{pkg, strings.TrimSpace(rest), at})
		case "guarded":
			flush()
			cs.Guardeds = append(cs.Guardeds, Guarded{pkg, strings.TrimSpace(rest), at})
		case "owns":
			flush()
			if cur != nil {
				cur.Owns = append(cur.Owns, strings.Fields(rest)...)
			}
		case "storeonly":
			flush()
			if cur != nil {
				fld, ex := splitWord(rest)
				e, err := parseSpec(ex)
				if err != nil {
					cs.errf("%s: storeonly: %v", at, err)
				} else {
					cur.StoreOnly = append(cur.StoreOnly, StoreOnly{Field: fld, Clause: Clause{Expr: e, Src: ex, Where: at}})
				}
			}
		case "nolockexit":
			flush()
			if cur != nil {
				cur.NoLockExit = true
			}
		case "allow":
			// `allow <rule>`: this function is one of the places the closed-world rule <rule> permits (the rule
			// itself lives in the property's configuration; the permission travels with the function's contract,
			// so a rename keeps it)
			flush()
			if cur != nil {
				cur.Allows = append(cur.Allows, strings.Fields(rest)...)
			}
		case "boxinv":
			flush()
			tn, pn := splitWord(rest)
			cs.BoxInvs = append(cs.BoxInvs, BoxInv{pkg, tn, pn, at})
		case "globalinv":
			flush()
			e, err := parseSpec(rest)
			if err != nil {
				cs.errf("%s: %v", at, err)
				continue
			}
			cs.GlobalInvs = append(cs.GlobalInvs, GlobalInv{pkg, e, rest, at})
		case "typeinv":
			flush()
			tn, pn := splitWord(rest)
			cs.TypeInvs = append(cs.TypeInvs, TypeInv{pkg, tn, pn, at})
		case "ufunc":
			flush()
			m := regexp.MustCompile(`^(\w+)\s*\(([^)]*)\)\s*(\S+)$`).FindStringSubmatch(rest)
			if m == nil {
				cs.errf("%s: cannot parse ufunc %q", at, rest)
				continue
			}
			u := UFDecl{Name: m[1], Result: m[3], Pkg: pkg, Where: at}
			for _, p := range strings.Split(m[2], ",") {
				if p = strings.TrimSpace(p); p != "" {
					u.Params = append(u.Params, p)
				}
			}
			cs.UFuncs = append(cs.UFuncs, u)
		case "locked":
			flush()
			if cur != nil {
				cur.Locked = true
			}
		case "heapwf":
			flush()
			if cur != nil {
				cur.Arith2 = "heapwf"
			}
		case "deterministic":
			flush()
			if cur != nil {
				cur.Deterministic = true
			}
		case "strorder":
			flush()
			if cur != nil {
				cur.Order = true
			}
		case "provenance":
			flush()
			if cur != nil {
				cur.Prov = true
			}
		case "cells":
			flush()
			if cur != nil {
				cur.Cells = true
			}
		case "strlines":
			flush()
			if cur != nil {
				cur.Lines = true
			}
		case "defines":
			flush()
			if cur != nil {
				cur.Defines = rest
			}
		case "exit":
			flush()
			if cur != nil {
				e, err := parseSpec(rest)
				if err != nil {
					cs.errf("%s: %v", at, err)
					continue
				}
				for _, cj := range splitConj(e) {
					cur.Exits = append(cur.Exits, Clause{cj, cj.String(), at})
				}
			}
		case "callsite":
			flush()
			callee, ex := splitWord(rest)
			if cur != nil {
				e, err := parseSpec(ex)
				if err != nil {
					cs.errf("%s: %v", at, err)
					continue
				}
				cur.CallSites = append(cur.CallSites, CallAssert{callee, Clause{e, ex, at}})
			}
		case "witness":
			flush()
			lbl, ex := splitWord(rest)
			if cur != nil {
				e, err := parseSpec(ex)
				if err != nil {
					cs.errf("%s: %v", at, err)
					continue
				}
				cur.Witness = append(cur.Witness, Clause{e, lbl, at})
			}
		case "immutable":
			flush()
			k, nm := splitWord(rest)
			cs.Immutables = append(cs.Immutables, Immutable{pkg, k, nm, at})
		case "pred":
			flush()
			m := regexp.MustCompile(`^(\w+)\s*\(([^)]*)\)\s*=\s*(.*)$`).FindStringSubmatch(rest)
			if m == nil {
				cs.errf("%s: cannot parse pred %q", at, rest)
				continue
			}
			pr := &Pred{Name: m[1], Pkg: pkg}
			for _, p := range strings.Split(m[2], ",") {
				p = strings.TrimSpace(p)
				if p == "" {
					continue
				}
				w, _ := splitWord(p)
				pr.Params = append(pr.Params, w)
			}
			pend = &pending{kind: "pred", text: m[3], at: at, pred: pr}
		case "requires", "ensures", "assigns":
			flush()
			pend = &pending{kind: word, text: rest, at: at}
		case "loop":
			flush()
			nstr, r2 := splitWord(rest)
			n, err := strconv.Atoi(nstr)
			if err != nil {
				cs.errf("%s: loop ordinal expected", at)
				continue
			}
			w2, r3 := splitWord(r2)
			switch w2 {
			case "invariant":
				pend = &pending{kind: "inv", n: n, text: r3, at: at}
			case "decreases":
				pend = &pending{kind: "dec", n: n, text: r3, at: at}
			case "backedge":
				if cur != nil {
					e, err := parseSpec(r3)
					if err != nil {
						cs.errf("%s: %v", at, err)
						continue
					}
					cur.BackEdges[n] = append(cur.BackEdges[n], Clause{e, r3, at})
				}
			default:
				cs.errf("%s: loop %d: invariant|decreases expected", at, n)
			}
		case "arith":
			flush()
			if cur != nil {
				cur.Arith = rest
			}
		case "trusted":
			flush()
			if cur != nil {
				cur.Trusted = rest
				if rest == "" {
					cur.Trusted = "trusted"
				}
			}
		case "inline":
			flush()
			if cur != nil {
				cur.Inline = true
			}
		case "props":
			flush()
			if cur != nil {
				cur.Props = strings.Fields(rest)
			}
		default:
			// continuation of the previous clause
			if pend != nil {
				pend.text += " " + body
			} else {
				cs.errf("%s: unknown clause %q", at, word)
			}
		}
	}
	flush()
}

func splitWord(s string) (string, string) {
	s = strings.TrimSpace(s)
	i := strings.IndexAny(s, " \t")
	if i < 0 {
		return s, ""
	}
	return s[:i], strings.TrimSpace(s[i:])
}

// splitTop splits at top-level commas.
func splitTop(s string) []string {
	var out []string
	d := 0
	last := 0
	for i, c := range s {
		switch c {
		case '(', '[':
			d++
		case ')', ']':
			d--
		case ',':
			if d == 0 {
				out = append(out, strings.TrimSpace(s[last:i]))
				last = i + 1
			}
		}
	}
	out = append(out, strings.TrimSpace(s[last:]))
	return out
}
