package main

import (
	"encoding/json"
	"fmt"
	"go/types"
	"os"
	"sort"
	"strings"

	"golang.org/x/tools/go/ssa"
)

// cmdClosure prints, per property of props.json, the functions under a (verified, not trusted) contract that the
// property's functions reach through static calls, closures, go statements and interface calls, and that the
// property's check does not include yet. Modular verification trusts the contract of every callee: a change inside
// a callee is noticed only by a check that includes the callee's own obligations.
func cmdClosure(args []string) {
	repo := "/repo"
	eng, err := loadEngine(repo)
	if err != nil {
		fmt.Fprintln(os.Stderr, err)
		os.Exit(2)
	}
	raw, err := os.ReadFile(args[0])
	if err != nil {
		fmt.Fprintln(os.Stderr, err)
		os.Exit(2)
	}
	var props map[string]json.RawMessage
	json.Unmarshal(raw, &props)
	ids := []string{}
	for k := range props {
		ids = append(ids, k)
	}
	sort.Strings(ids)
	verified := func(k string) bool {
		c := eng.contracts.Funcs[k]
		return c != nil && c.Trusted == "" && c.Kind != "iface" && c.Kind != "field"
	}
	for _, id := range ids {
		var ps struct {
			Funcs []string `json:"funcs"`
		}
		if json.Unmarshal(props[id], &ps) != nil || len(ps.Funcs) == 0 {
			continue
		}
		have := map[string]bool{}
		for _, f := range ps.Funcs {
			have[f] = true
		}
		seen := map[*ssa.Function]bool{}
		extra := map[string]bool{}
		var visit func(f *ssa.Function, depth int)
		visit = func(f *ssa.Function, depth int) {
			if f == nil || seen[f] || f.Blocks == nil || !eng.inRepo(f) {
				return
			}
			seen[f] = true
			k := eng.fnKey(f)
			if !have[k] && verified(k) {
				extra[k] = true
			}
			for _, b := range f.Blocks {
				for _, in := range b.Instrs {
					if mc, ok := in.(*ssa.MakeClosure); ok {
						visit(mc.Fn.(*ssa.Function), depth+1)
					}
					ci, ok := in.(ssa.CallInstruction)
					if !ok {
						continue
					}
					cc := ci.Common()
					if cc.IsInvoke() {
						if it, ok := cc.Value.Type().Underlying().(*types.Interface); ok && eng.ifaceInRepo(cc.Value.Type()) {
							for _, t := range eng.implementers(it) {
								ms := eng.prog.MethodSets.MethodSet(t)
								if sel := ms.Lookup(cc.Method.Pkg(), cc.Method.Name()); sel != nil {
									visit(eng.prog.MethodValue(sel), depth+1)
								}
							}
						}
						continue
					}
					if g := cc.StaticCallee(); g != nil {
						visit(g, depth+1)
					}
				}
			}
		}
		for _, f := range ps.Funcs {
			for _, fn := range eng.fnByKey[f] {
				visit(fn, 0)
			}
		}
		ex := []string{}
		for k := range extra {
			ex = append(ex, k)
		}
		sort.Strings(ex)
		fmt.Printf("%s: %d funcs, %d further verified callees: %s\n", id, len(ps.Funcs), len(ex), strings.Join(ex, " "))
	}
}

// inlinedOnlyHelpers: among the selected function keys, the unexported, loop-free, top-level functions WITHOUT a
// contract whose every use in the repository is a static call from a function that is itself selected (or is such a
// helper). The executor inlines such a callee at each call site, so its body is verified there, in the context of
// the arguments it actually receives; verifying it once more on its own, with no precondition, would demand that
// it be safe for arguments no caller passes (a freshly extracted helper would raise an alarm although nothing
// changed). Functions with a contract, exported functions, methods, recursive functions, functions with loops and
// functions used as values are always verified on their own.
func (e *Engine) inlinedOnlyHelpers(keys []string) map[string]bool {
	selected := map[string]bool{}
	for _, k := range keys {
		selected[k] = true
	}
	outer := func(f *ssa.Function) *ssa.Function {
		for f.Parent() != nil {
			f = f.Parent()
		}
		return f
	}
	cand := map[*ssa.Function]string{}
	for _, k := range keys {
		if e.contracts.Funcs[k] != nil {
			continue
		}
		fs := e.fnByKey[k]
		if len(fs) != 1 {
			continue
		}
		f := fs[0]
		if f.Parent() != nil || f.Blocks == nil || f.Synthetic != "" || f.Signature.Recv() != nil || f.Object() == nil || f.Object().Exported() || e.hasLoops(f) || f.Name() == "init" || f.Name() == "main" {
			continue
		}
		cand[f] = k
	}
	if len(cand) == 0 {
		return nil
	}
	callers := map[*ssa.Function]map[*ssa.Function]bool{}
	bad := map[*ssa.Function]bool{}
	var all []*ssa.Function
	for _, fs := range e.fnByKey {
		all = append(all, fs...)
	}
	seen := map[*ssa.Function]bool{}
	var walk func(f *ssa.Function)
	walk = func(f *ssa.Function) {
		if f == nil || seen[f] || f.Blocks == nil {
			return
		}
		seen[f] = true
		for _, b := range f.Blocks {
			for _, in := range b.Instrs {
				if _, isDbg := in.(*ssa.DebugRef); isDbg {
					continue
				}
				var callee *ssa.Function
				if ci, ok := in.(ssa.CallInstruction); ok {
					if _, isGo := in.(*ssa.Go); !isGo {
						if _, isDefer := in.(*ssa.Defer); !isDefer {
							callee = ci.Common().StaticCallee()
						}
					}
				}
				for _, op := range in.Operands(nil) {
					if op == nil || *op == nil {
						continue
					}
					g, ok := (*op).(*ssa.Function)
					if !ok {
						continue
					}
					if _, isCand := cand[g]; !isCand {
						continue
					}
					if ci, isCall := in.(ssa.CallInstruction); isCall && callee == g && ci.Common().Value == *op {
						if callers[g] == nil {
							callers[g] = map[*ssa.Function]bool{}
						}
						callers[g][outer(f)] = true
					} else {
						bad[g] = true // used as a value, spawned or deferred
					}
				}
				if mc, ok := in.(*ssa.MakeClosure); ok {
					walk(mc.Fn.(*ssa.Function))
				}
			}
		}
		for _, an := range f.AnonFuncs {
			walk(an)
		}
	}
	for _, f := range all {
		walk(f)
	}
	res := map[string]bool{}
	if os.Getenv("GOVC_DEBUG_INLINE") != "" {
		for f, k := range cand {
			fmt.Fprintln(os.Stderr, "cand", k, "bad", bad[f], "callers", len(callers[f]))
		}
	}
	for f, k := range cand {
		if !bad[f] && len(callers[f]) > 0 && !callers[f][f] {
			res[k] = true
		}
	}
	// every caller must be verified in this run (selected and not itself skipped) or be such a helper
	for changed := true; changed; {
		changed = false
		for f, k := range cand {
			if !res[k] {
				continue
			}
			for c := range callers[f] {
				ck := e.fnKey(c)
				if ck2, isCand := cand[c]; isCand && res[ck2] {
					continue
				}
				if !selected[ck] || !e.inRepo(c) {
					delete(res, k)
					changed = true
					break
				}
				if con := e.contracts.Funcs[ck]; con != nil && con.Trusted != "" {
					delete(res, k)
					changed = true
					break
				}
			}
		}
	}
	return res
}

// sourceHasFunc: does the source declare the function a contract key names (pkg.Func, pkg.Type.Method, pkg.Func$N)?
// Generic functions and methods that are never instantiated have no SSA body to verify, yet they exist.
func (e *Engine) sourceHasFunc(key string) bool {
	base := key
	closure := 0
	if i := strings.Index(base, "$"); i >= 0 {
		rest := base[i+1:]
		if j := strings.Index(rest, "$"); j >= 0 {
			rest = rest[:j]
		}
		fmt.Sscanf(rest, "%d", &closure)
		base = base[:i]
	}
	if h := strings.Index(base, "#"); h >= 0 {
		base = base[:h]
	}
	parts := strings.Split(base, ".")
	if len(parts) < 2 {
		return false
	}
	pkg := e.pkgByName[parts[0]]
	if pkg == nil || pkg.Pkg == nil {
		return false
	}
	obj := pkg.Pkg.Scope().Lookup(parts[1])
	if obj == nil {
		return false
	}
	var found bool
	switch o := obj.(type) {
	case *types.Func:
		found = len(parts) == 2
	case *types.TypeName:
		if len(parts) == 3 {
			if named, ok := o.Type().(*types.Named); ok {
				for i := 0; i < named.NumMethods(); i++ {
					if named.Method(i).Name() == parts[2] {
						found = true
					}
				}
			}
		}
	}
	if !found {
		return false
	}
	if closure > 0 {
		// a function literal inside: it exists when the enclosing function has that many
		for _, f := range e.fnByKey[base] {
			if len(f.AnonFuncs) >= closure {
				return true
			}
		}
		return len(e.fnByKey[base]) == 0
	}
	return true
}

// usesOf: the top-level functions that call f statically, and whether f is used in any other way (as a value,
// spawned, deferred). Cached.
func (e *Engine) usesOf(f *ssa.Function) (callers map[*ssa.Function]bool, onlyCalled bool) {
	if e.usesCache == nil {
		e.usesCache = map[*ssa.Function]*fnUses{}
		for fn := range e.allFns {
			if !e.inRepo(fn) {
				continue
			}
			for _, b := range fn.Blocks {
				for _, in := range b.Instrs {
					if _, isDbg := in.(*ssa.DebugRef); isDbg {
						continue
					}
					var callee *ssa.Function
					if ci, ok := in.(ssa.CallInstruction); ok {
						if _, isGo := in.(*ssa.Go); !isGo {
							if _, isDefer := in.(*ssa.Defer); !isDefer {
								callee = ci.Common().StaticCallee()
							}
						}
					}
					for _, op := range in.Operands(nil) {
						if op == nil || *op == nil {
							continue
						}
						g, ok := (*op).(*ssa.Function)
						if !ok || !e.inRepo(g) {
							continue
						}
						u := e.usesCache[g]
						if u == nil {
							u = &fnUses{callers: map[*ssa.Function]bool{}}
							e.usesCache[g] = u
						}
						if ci, isCall := in.(ssa.CallInstruction); isCall && callee == g && ci.Common().Value == *op {
							u.callers[topFn(fn)] = true
						} else if _, isMC := in.(*ssa.MakeClosure); !isMC {
							u.other = true
						}
					}
				}
			}
		}
	}
	u := e.usesCache[f]
	if u == nil {
		return nil, true
	}
	return u.callers, !u.other
}

type fnUses struct {
	callers map[*ssa.Function]bool
	other   bool
}

// helperOf: fn (or the function it is nested in) is an unexported top-level function without a contract whose
// every use is a static call from a function satisfying ok, or from another such helper. Such a helper is part of
// its callers for the purposes of rules that name functions (it is verified inlined into them).
func (e *Engine) helperOf(fn *ssa.Function, ok func(key string) bool) bool {
	seen := map[*ssa.Function]bool{}
	var rec func(f *ssa.Function) bool
	rec = func(f *ssa.Function) bool {
		f = topFn(f)
		if seen[f] {
			return true
		}
		seen[f] = true
		k := e.fnKey(f)
		if ok(k) {
			return true
		}
		if e.contracts.Funcs[k] != nil || f.Object() == nil || f.Object().Exported() || f.Signature.Recv() != nil && false {
			return false
		}
		callers, onlyCalled := e.usesOf(f)
		if !onlyCalled || len(callers) == 0 {
			return false
		}
		for c := range callers {
			if !rec(c) {
				return false
			}
		}
		return true
	}
	k := e.fnKey(topFn(fn))
	if ok(k) {
		return true
	}
	return rec(fn)
}
