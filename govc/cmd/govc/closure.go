package main

import (
	"encoding/json"
	"fmt"
	"go/types"
	"os"
	"sort"
	"strings"

	"golang.org/x/tools/go/ssa"
)

// cmdClosure prints, per property of props.json, the functions under a (verified, not trusted) contract that the
// property's functions reach through static calls, closures, go statements and interface calls, and that the
// property's check does not include yet. Modular verification trusts the contract of every callee: a change inside
// a callee is noticed only by a check that includes the callee's own obligations.
func cmdClosure(args []string) {
	repo := "/repo"
	eng, err := loadEngine(repo)
	if err != nil {
		fmt.Fprintln(os.Stderr, err)
		os.Exit(2)
	}
	raw, err := os.ReadFile(args[0])
	if err != nil {
		fmt.Fprintln(os.Stderr, err)
		os.Exit(2)
	}
	var props map[string]json.RawMessage
	json.Unmarshal(raw, &props)
	ids := []string{}
	for k := range props {
		ids = append(ids, k)
	}
	sort.Strings(ids)
	verified := func(k string) bool {
		c := eng.contracts.Funcs[k]
		return c != nil && c.Trusted == "" && c.Kind != "iface" && c.Kind != "field"
	}
	for _, id := range ids {
		var ps struct {
			Funcs []string `json:"funcs"`
		}
		if json.Unmarshal(props[id], &ps) != nil || len(ps.Funcs) == 0 {
			continue
		}
		have := map[string]bool{}
		for _, f := range ps.Funcs {
			have[f] = true
		}
		seen := map[*ssa.Function]bool{}
		extra := map[string]bool{}
		var visit func(f *ssa.Function, depth int)
		visit = func(f *ssa.Function, depth int) {
			if f == nil || seen[f] || f.Blocks == nil || !eng.inRepo(f) {
				return
			}
			seen[f] = true
			k := eng.fnKey(f)
			if !have[k] && verified(k) {
				extra[k] = true
			}
			for _, b := range f.Blocks {
				for _, in := range b.Instrs {
					if mc, ok := in.(*ssa.MakeClosure); ok {
						visit(mc.Fn.(*ssa.Function), depth+1)
					}
					ci, ok := in.(ssa.CallInstruction)
					if !ok {
						continue
					}
					cc := ci.Common()
					if cc.IsInvoke() {
						if it, ok := cc.Value.Type().Underlying().(*types.Interface); ok && eng.ifaceInRepo(cc.Value.Type()) {
							for _, t := range eng.implementers(it) {
								ms := eng.prog.MethodSets.MethodSet(t)
								if sel := ms.Lookup(cc.Method.Pkg(), cc.Method.Name()); sel != nil {
									visit(eng.prog.MethodValue(sel), depth+1)
								}
							}
						}
						continue
					}
					if g := cc.StaticCallee(); g != nil {
						visit(g, depth+1)
					}
				}
			}
		}
		for _, f := range ps.Funcs {
			for _, fn := range eng.fnByKey[f] {
				visit(fn, 0)
			}
		}
		ex := []string{}
		for k := range extra {
			ex = append(ex, k)
		}
		sort.Strings(ex)
		fmt.Printf("%s: %d funcs, %d further verified callees: %s\n", id, len(ps.Funcs), len(ex), strings.Join(ex, " "))
	}
}
