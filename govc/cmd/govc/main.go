package main

import (
	"flag"
	"fmt"
	"os"
	"sort"
	"strings"
	"time"
)

func main() {
	if len(os.Args) < 2 {
		fmt.Fprintln(os.Stderr, "usage: govc verify|check ...")
		os.Exit(2)
	}
	switch os.Args[1] {
	case "verify":
		cmdVerify(os.Args[2:])
	case "check":
		cmdCheck(os.Args[2:])
	case "closure":
		cmdClosure(os.Args[2:])
	default:
		fmt.Fprintln(os.Stderr, "unknown command", os.Args[1])
		os.Exit(2)
	}
}

func cmdVerify(args []string) {
	fs := flag.NewFlagSet("verify", flag.ExitOnError)
	repo := fs.String("repo", "/repo", "repository root")
	funcs := fs.String("funcs", "", "comma-separated function keys (prefix match with trailing *)")
	out := fs.String("out", "", "scratch directory for SMT files")
	timeout := fs.Int("timeout", 5000, "solver timeout (ms)")
	verbose := fs.Bool("v", false, "verbose")
	keep := fs.Bool("keep", false, "keep scratch directory")
	fs.Parse(args)
	t0 := time.Now()
	eng, err := loadEngine(*repo)
	if err != nil {
		fmt.Fprintln(os.Stderr, "load:", err)
		os.Exit(2)
	}
	fmt.Fprintf(os.Stderr, "loaded in %.1fs; %d contracts, %d preds\n", time.Since(t0).Seconds(), len(eng.contracts.Funcs), len(eng.contracts.Preds))
	for _, e := range eng.contracts.Errors {
		fmt.Println("CONTRACT-ERROR:", e)
	}
	dir := *out
	if dir == "" {
		dir, _ = os.MkdirTemp("", "govc")
		if !*keep {
			defer os.RemoveAll(dir)
		}
	}
	var keys []string
	for k := range eng.fnByKey {
		if strings.HasSuffix(k, ".init") && !strings.Contains(*funcs, k) {
			continue
		}
		for _, pat := range strings.Split(*funcs, ",") {
			if pat == k || (strings.HasSuffix(pat, "*") && strings.HasPrefix(k, strings.TrimSuffix(pat, "*"))) {
				keys = append(keys, k)
			}
		}
	}
	sort.Strings(keys)
	var all []*Obligation
	for _, k := range keys {
		con := eng.contracts.Funcs[k]
		for _, fn := range eng.fnByKey[k] {
			if fn.TypeParams().Len() > 0 && len(fn.TypeArgs()) == 0 {
				continue
			}
			if fn.Synthetic != "" && !strings.HasPrefix(fn.Synthetic, "instance of") && fn.Synthetic != "package initializer" {
				continue
			}
			if fn.Parent() != nil && con == nil && !eng.spawnedUnjoined(fn) {
				continue
			}
			c := eng.verifyFunc(fn, con)
			fmt.Printf("== %s: %d obligations, %d paths, contract=%v\n", c.name, len(c.obls), c.paths, con != nil)
			for u := range c.unsup {
				fmt.Println("   UNSUPPORTED:", u)
			}
			for _, a := range sortedKeys(c.assumed) {
				fmt.Println("   assumed:", a)
			}
			all = append(all, c.obls...)
		}
	}
	for _, e := range eng.specErrs {
		fmt.Println("SPEC-ERROR:", e)
	}
	dischargeAll(all, dir, *timeout, 12, false)
	bad := 0
	for _, o := range all {
		ok := o.Status == o.Expect || (o.Expect == "sat" && o.Status == "unknown")
		if !ok {
			bad++
		}
		if *verbose || !ok {
			fmt.Printf("%-8s %-60s %-8s %5dms %s  [%s] %s\n", map[bool]string{true: "ok", false: "FAIL"}[ok], o.Name, o.Status, o.Millis, o.Solver, o.Pos, o.Desc)
			if !ok && (o.Status == "error" || (o.Status == "sat" && os.Getenv("GOVC_MODELS") != "")) {
				m := o.Model
				if len(m) > 1500 {
					m = m[:1500]
				}
				fmt.Println("     ", m)
			}
		}
	}
	vc, vs := vacuityFindings(all)
	for _, v := range vc {
		fmt.Println("VACUOUS:", v)
		bad++
	}
	for _, v := range vs {
		fmt.Println("VACUITY-SUSPECT:", v)
	}
	fmt.Printf("%d obligations, %d not as expected, %.1fs\n", len(all), bad, time.Since(t0).Seconds())
	if bad > 0 {
		fmt.Println("scratch:", dir)
		os.Exit(1)
	}
}
