package main

import (
	"fmt"
	"go/constant"
	"go/token"
	"go/types"
	"os"
	"sort"
	"strings"

	"golang.org/x/tools/go/packages"
	"golang.org/x/tools/go/ssa"
	"golang.org/x/tools/go/ssa/ssautil"
)

type UFunc struct {
	Name string
	T    types.Type
}

type Engine struct {
	repo         string
	prog         *ssa.Program
	pkgs         []*ssa.Package
	pkgByName    map[string]*ssa.Package
	allFns       map[*ssa.Function]bool
	fnByKey      map[string][]*ssa.Function
	usesCache    map[*ssa.Function]*fnUses
	contracts    *ContractSet
	lib          map[string]libModel
	libEffects   map[string][]string
	tags         map[string]int
	tagTypes     map[int]types.Type
	epochCtr     int
	globalDecls  []string
	ufuncs       map[string]UFunc
	maxVC        int
	fnIDs        map[*ssa.Function]int
	loopCache    map[*ssa.Function]map[*ssa.BasicBlock]map[*ssa.BasicBlock]bool
	implCache    map[string][]types.Type
	specErrs     []string
	sentinelList []*ssa.Global
	keyInfo      map[string]keyInfo
	immPrefixes  []string
	immProblems  []string
	immChecked   bool
	writerMap    map[string]map[*types.Package]bool
	reGlobalMap  map[*ssa.Global]string
	refKeys1     map[string]bool
	refKeys2     map[string]bool
	privCache    map[*ssa.Function]map[*ssa.Alloc]bool
	typeInvs     map[string]*typeInvInfo
	tiProblems   []string
	hasWait      map[*ssa.Function]bool
	extTypeInvs  []string
	immAllowed   map[*ssa.Function]bool
	reachCache   map[string]bool
	cbFree       map[*types.Package]bool
	loadErrs     []string
}

func loadEngine(repo string) (*Engine, error) {
	cfg := &packages.Config{Mode: packages.LoadAllSyntax, Dir: repo, BuildFlags: []string{"-tags=verif"},
		Env: append(os.Environ(), "GOFLAGS=-mod=mod", "GOPROXY=off", "GOSUMDB=off", "GOTOOLCHAIN=local")}
	pkgs, err := packages.Load(cfg, "./...")
	if err != nil {
		return nil, err
	}
	e := &Engine{repo: repo, pkgByName: map[string]*ssa.Package{}, fnByKey: map[string][]*ssa.Function{},
		tags: map[string]int{}, tagTypes: map[int]types.Type{}, ufuncs: map[string]UFunc{}, maxVC: 400000,
		fnIDs: map[*ssa.Function]int{}, loopCache: map[*ssa.Function]map[*ssa.BasicBlock]map[*ssa.BasicBlock]bool{},
		implCache: map[string][]types.Type{}, keyInfo: map[string]keyInfo{}, refKeys1: map[string]bool{}, refKeys2: map[string]bool{}, privCache: map[*ssa.Function]map[*ssa.Alloc]bool{}, reachCache: map[string]bool{}, cbFree: map[*types.Package]bool{}}
	for _, p := range pkgs {
		for _, pe := range p.Errors {
			e.loadErrs = append(e.loadErrs, pe.Error())
		}
	}
	if len(e.loadErrs) > 0 {
		return e, fmt.Errorf("package load errors: %s", strings.Join(e.loadErrs, "; "))
	}
	prog, spkgs := ssautil.AllPackages(pkgs, ssa.InstantiateGenerics|ssa.GlobalDebug)
	prog.Build()
	e.prog = prog
	for _, sp := range spkgs {
		if sp == nil {
			continue
		}
		e.pkgs = append(e.pkgs, sp)
	}
	for _, sp := range prog.AllPackages() {
		if _, dup := e.pkgByName[sp.Pkg.Name()]; !dup || strings.HasPrefix(sp.Pkg.Path(), "servitor") {
			e.pkgByName[sp.Pkg.Name()] = sp
		}
	}
	e.allFns = ssautil.AllFunctions(prog)
	for f := range e.allFns {
		if e.inRepo(f) {
			k := e.fnKey(f)
			e.fnByKey[k] = append(e.fnByKey[k], f)
		}
	}
	for k := range e.fnByKey {
		fs := e.fnByKey[k]
		sort.Slice(fs, func(i, j int) bool { return fs[i].String() < fs[j].String() })
	}
	e.contracts = loadContracts(repo)
	e.initUFuncs()
	e.initLib()
	e.initImmutables()
	e.initTypeInvs()
	return e, nil
}

func (e *Engine) inRepo(f *ssa.Function) bool {
	p := f.Pkg
	g := f
	for p == nil && g != nil {
		if g.Parent() != nil {
			g = g.Parent()
		} else if g.Origin() != nil {
			g = g.Origin()
		} else {
			break
		}
		p = g.Pkg
	}
	if p == nil {
		return false
	}
	path := p.Pkg.Path()
	return path == "servitor" || strings.HasPrefix(path, "servitor/")
}

// fnKey: pkg.Func | pkg.Type.Method | pkg.Outer$1 (generic instances map to their origin's key).
func (e *Engine) fnKey(f *ssa.Function) string {
	if f.Parent() != nil {
		// anonymous function: Outer$N
		name := f.Name()
		outer := f.Parent()
		ok := e.fnKey(outer)
		if i := strings.LastIndex(name, "$"); i >= 0 {
			return ok + name[i:]
		}
		return ok + "$" + name
	}
	g := f
	if f.Origin() != nil {
		g = f.Origin()
	}
	pkg := ""
	if g.Pkg != nil {
		pkg = g.Pkg.Pkg.Name()
	} else if g.Object() != nil && g.Object().Pkg() != nil {
		pkg = g.Object().Pkg().Name()
	}
	if recv := g.Signature.Recv(); recv != nil {
		t := recv.Type()
		if p, ok := t.(*types.Pointer); ok {
			t = p.Elem()
		}
		tn := ""
		if n, ok := t.(*types.Named); ok {
			tn = n.Obj().Name()
			if n.Obj().Pkg() != nil {
				pkg = n.Obj().Pkg().Name()
			}
		}
		name := g.Name()
		return pkg + "." + tn + "." + name
	}
	return pkg + "." + g.Name()
}

func (e *Engine) ifaceKey(t types.Type, method string) string {
	if n, ok := t.(*types.Named); ok {
		pkg := ""
		if n.Obj().Pkg() != nil {
			pkg = n.Obj().Pkg().Name()
		}
		if pkg == "" {
			return n.Obj().Name() + "." + method // error.Error
		}
		return pkg + "." + n.Obj().Name() + "." + method
	}
	return "iface." + method
}

// funcValueKey: contract key for calls through a function-typed struct field.
func (e *Engine) funcValueKey(v ssa.Value) string {
	if u, ok := v.(*ssa.UnOp); ok && u.Op == token.MUL {
		if fa, ok := u.X.(*ssa.FieldAddr); ok {
			pt := derefType(fa.X.Type())
			if n, ok := pt.(*types.Named); ok {
				st := pt.Underlying().(*types.Struct)
				return n.Obj().Pkg().Name() + "." + n.Obj().Name() + "." + st.Field(fa.Field).Name()
			}
		}
	}
	if f, ok := v.(*ssa.Field); ok {
		if n, ok := f.X.Type().(*types.Named); ok {
			st := n.Underlying().(*types.Struct)
			return n.Obj().Pkg().Name() + "." + n.Obj().Name() + "." + st.Field(f.Field).Name()
		}
	}
	if p, ok := v.(*ssa.Parameter); ok {
		return e.fnKey(p.Parent()) + "." + p.Name()
	}
	return ""
}

func (e *Engine) fnID(f *ssa.Function) int {
	if id, ok := e.fnIDs[f]; ok {
		return id
	}
	id := len(e.fnIDs) + 1
	e.fnIDs[f] = id
	return id
}

func (e *Engine) posOf(in ssa.Instruction) string {
	if in == nil || in.Pos() == token.NoPos {
		return "?"
	}
	p := e.prog.Fset.Position(in.Pos())
	return fmt.Sprintf("%s:%d", strings.TrimPrefix(p.Filename, e.repo+"/"), p.Line)
}

// ---------- loops ----------

func (e *Engine) loops(fn *ssa.Function) map[*ssa.BasicBlock]map[*ssa.BasicBlock]bool {
	if l, ok := e.loopCache[fn]; ok {
		return l
	}
	res := map[*ssa.BasicBlock]map[*ssa.BasicBlock]bool{}
	for _, b := range fn.Blocks {
		for _, succ := range b.Succs {
			if succ.Dominates(b) {
				// back edge b -> succ; natural loop
				body := res[succ]
				if body == nil {
					body = map[*ssa.BasicBlock]bool{succ: true}
					res[succ] = body
				}
				var stack []*ssa.BasicBlock
				if !body[b] {
					body[b] = true
					stack = append(stack, b)
				}
				for len(stack) > 0 {
					x := stack[len(stack)-1]
					stack = stack[:len(stack)-1]
					for _, p := range x.Preds {
						if !body[p] {
							body[p] = true
							stack = append(stack, p)
						}
					}
				}
			}
		}
	}
	e.loopCache[fn] = res
	return res
}

func (e *Engine) hasLoops(fn *ssa.Function) bool { return len(e.loops(fn)) > 0 }

func (e *Engine) isLoopHeader(b *ssa.BasicBlock) (int, bool) {
	l := e.loops(b.Parent())
	_, ok := l[b]
	return 0, ok
}

// ---------- interface implementers (closed world over the program) ----------

func (e *Engine) implementers(it *types.Interface) []types.Type {
	key := it.String()
	if r, ok := e.implCache[key]; ok {
		return r
	}
	var out []types.Type
	seen := map[string]bool{}
	add := func(t types.Type) {
		k := types.TypeString(t, nil)
		if seen[k] {
			return
		}
		if _, isI := t.Underlying().(*types.Interface); isI {
			return
		}
		if types.Implements(t, it) {
			seen[k] = true
			out = append(out, t)
		}
	}
	for _, sp := range e.prog.AllPackages() {
		if !(sp.Pkg.Path() == "servitor" || strings.HasPrefix(sp.Pkg.Path(), "servitor/")) {
			continue
		}
		for _, m := range sp.Members {
			if tm, ok := m.(*ssa.Type); ok {
				if _, gen := tm.Type().(*types.Named); gen && tm.Type().(*types.Named).TypeParams().Len() > 0 {
					continue
				}
				add(tm.Type())
				add(types.NewPointer(tm.Type()))
			}
		}
	}
	sort.Slice(out, func(i, j int) bool { return out[i].String() < out[j].String() })
	e.implCache[key] = out
	return out
}

// specStaticType: best-effort static type of a spec expression over a callee's parameters.
func (e *Engine) specStaticType(x Expr, fn *ssa.Function) types.Type {
	switch n := x.(type) {
	case *EIdent:
		for _, p := range fn.Params {
			if p.Name() == n.Name {
				return p.Type()
			}
		}
		if fn.Pkg != nil {
			if g, ok := fn.Pkg.Members[n.Name].(*ssa.Global); ok {
				return derefType(g.Type())
			}
		}
	case *ESelect:
		bt := e.specStaticType(n.X, fn)
		if bt == nil {
			return nil
		}
		if pt := derefType(bt); pt != nil {
			bt = pt
		}
		if st, ok := bt.Underlying().(*types.Struct); ok {
			for i := 0; i < st.NumFields(); i++ {
				if st.Field(i).Name() == n.F {
					return st.Field(i).Type()
				}
			}
		}
	case *EStar:
		return e.specStaticType(n.X, fn)
	case *EUnary:
		t := e.specStaticType(n.X, fn)
		if n.Op == "*" && t != nil {
			return derefType(t)
		}
		return t
	case *ECall:
		if n.Fn == "old" && len(n.Args) == 1 {
			return e.specStaticType(n.Args[0], fn)
		}
	}
	return nil
}

// ---------- verifying one function ----------

func (c *FnCtx) specErr(where, format string, a ...any) {
	msg := fmt.Sprintf("%s: %s", where, fmt.Sprintf(format, a...))
	for _, m := range c.eng.specErrs {
		if m == msg {
			return
		}
	}
	c.eng.specErrs = append(c.eng.specErrs, msg)
}

func (c *FnCtx) specErrors(x *EvalCtx, where string) {
	for _, m := range x.err {
		c.specErr(where, "%s", m)
		// a clause that cannot be evaluated in this state is not proved: the next obligation fails
		c.clauseErr = where + ": " + m
	}
	x.err = nil
}

func (c *FnCtx) paramVars(s *State) map[string]Val {
	vars := map[string]Val{}
	for _, p := range c.fn.Params {
		if v, ok := c.entryVals[p]; ok {
			vars[p.Name()] = v
		}
	}
	// captured variables are cells: their name denotes the cell's content in the state at hand
	for _, fv := range c.fn.FreeVars {
		if v, ok := c.entryFrees[fv]; ok {
			if a := s.ptrAddr(v); a != nil && derefType(v.T) != nil {
				vars[fv.Name()] = s.pureLoad(a)
			} else {
				vars[fv.Name()] = v
			}
		}
	}
	return vars
}

func (e *Engine) displayName(fn *ssa.Function) string {
	k := e.fnKey(fn)
	if len(fn.TypeArgs()) > 0 && fn.Signature.Recv() == nil {
		var as []string
		for _, t := range fn.TypeArgs() {
			as = append(as, types.TypeString(t, func(p *types.Package) string { return p.Name() }))
		}
		k += "[" + strings.Join(as, ",") + "]"
	}
	return k
}

func specSort(name string) (types.Type, string) {
	switch name {
	case "int", "uint", "uint64", "rune", "byte":
		return intT, sInt
	case "string":
		return strT, sStr
	case "bool":
		return boolT, sBool
	case "float64":
		return types.Typ[types.Float64], sF64
	case "any", "error":
		return types.NewInterfaceType(nil, nil), sIface
	case "ref":
		return intT, sInt
	}
	return nil, ""
}

func (e *Engine) initUFuncs() {
	for _, u := range e.contracts.UFuncs {
		rt, rs := specSort(u.Result)
		if rt == nil {
			e.contracts.errf("%s: ufunc %s: unknown result sort %s", u.Where, u.Name, u.Result)
			continue
		}
		var ps []string
		ok := true
		for _, p := range u.Params {
			_, srt := specSort(p)
			if srt == "" {
				e.contracts.errf("%s: ufunc %s: unknown parameter sort %s", u.Where, u.Name, p)
				ok = false
			}
			ps = append(ps, srt)
		}
		if !ok {
			continue
		}
		name := "uf_" + u.Name
		e.ufuncs[u.Name] = UFunc{Name: name, T: rt}
		e.globalDecls = append(e.globalDecls, fmt.Sprintf("(declare-fun %s (%s) %s)", name, strings.Join(ps, " "), rs))
	}
}

func (e *Engine) verifyFunc(fn *ssa.Function, con *Contract) *FnCtx {
	c := &FnCtx{eng: e, fn: fn, name: e.displayName(fn), con: con, declSet: map[string]bool{}, lits: map[string]string{},
		ordinals: map[string]int{}, instrOrd: map[ssa.Instruction]map[string]int{}, assumed: map[string]bool{},
		unsup: map[string]bool{}, budget: 200000, used: map[string]bool{}, sorts: map[string]string{}, constArrs: map[string]string{}, litText: map[string]string{}, catParts: map[string][]strAtom{},
		entryVals: map[*ssa.Parameter]Val{}, entryFrees: map[*ssa.FreeVar]Val{}}
	c.quantHeavy = con != nil && con.Arith2 == "heapwf"
	c.usesLock = con != nil && con.Locked
	c.cellsMode = con != nil && con.Cells
	c.provMode = con != nil && con.Prov
	c.strOrder = con != nil && con.Order
	c.useLines = con != nil && con.Lines
	c.checked = con != nil && con.Arith == "checked"
	if fn.Blocks == nil {
		c.unsup["no body"] = true
		return c
	}
	// loops
	lp := e.loops(fn)
	c.loopBody = lp
	c.loopHdr = map[*ssa.BasicBlock]int{}
	var hdrs []*ssa.BasicBlock
	for h := range lp {
		hdrs = append(hdrs, h)
	}
	sort.Slice(hdrs, func(i, j int) bool { return hdrs[i].Index < hdrs[j].Index })
	for i, h := range hdrs {
		c.loopHdr[h] = i + 1
	}
	s := &State{c: c, env: map[ssa.Value]Val{}, heap: map[string]string{}, names: map[string]nameBinding{},
		ghost: map[string]Val{}, inLoop: map[*ssa.BasicBlock]bool{}}
	s.alloc = c.freshConst("alloc0", sInt)
	s.assume(app("<", "0", s.alloc))
	s.alloc0 = s.alloc
	s.held = boolLit(con != nil && con.Locked)
	c.entryHeld = s.held
	s.ghost["exec_count"] = Val{T: intT, S: "0"}
	s.initNetGhost()
	for _, p := range fn.Params {
		v := s.freshVal(p.Type(), "p_"+p.Name())
		s.env[p] = v
		c.entryVals[p] = v
		s.names[p.Name()] = nameBinding{V: p, IsAddr: false}
		if kindOf(p.Type()) == kStruct {
			if info, ok := e.typeInvs[typeKey(p.Type())]; ok && !info.ctors[topFn(fn)] {
				if pr := e.contracts.Preds[info.pred]; pr != nil && len(pr.Params) == 1 {
					x := &EvalCtx{s: s, vars: map[string]Val{pr.Params[0]: v}, pkg: e.pkgByName[info.pkg]}
					s.assume(x.eval(pr.Body).S)
				}
			}
		}
	}
	if fn.Signature.Recv() != nil && len(fn.Params) > 0 {
		if bi, named, isPtr := e.boxInvFor(fn.Params[0].Type()); bi != nil && fn.Object() != nil && fn.Object().Exported() {
			if t, ok := s.boxInvTerm(bi, named, isPtr, s.env[fn.Params[0]]); ok {
				s.assume(t)
				c.assumed["receiver invariant "+bi.Pred+" of "+bi.Type+" (established wherever a "+bi.Type+" is converted to an interface; not modified afterwards)"] = true
			}
		}
	}
	// pointer receivers of methods are non-nil (checked at every static call site)
	if fn.Signature.Recv() != nil && len(fn.Params) > 0 && kindOf(fn.Params[0].Type()) == kPtr {
		s.assume(not(eq(s.env[fn.Params[0]].S, "0")))
	}
	var frees map[*ssa.FreeVar]Val
	if len(fn.FreeVars) > 0 {
		frees = map[*ssa.FreeVar]Val{}
		for _, fv := range fn.FreeVars {
			v := s.freshVal(fv.Type(), "fv_"+fv.Name())
			if kindOf(fv.Type()) == kPtr {
				s.assume(not(eq(v.S, "0")))
			}
			frees[fv] = v
			c.entryFrees[fv] = v
			s.names[fv.Name()] = nameBinding{V: fv, IsAddr: true}
		}
	}
	s.frees = frees
	// behavioural subtyping, precondition side: whatever the interface contract demands of callers must be
	// enough for this implementation
	if ics := e.ifaceContractsFor(fn); len(ics) > 0 && con != nil && len(con.Requires) > 0 {
		for _, ic := range ics {
			st := s.clone()
			vars := map[string]Val{}
			for i, n := range ic.Params {
				if i+1 < len(fn.Params) {
					vars[n] = c.entryVals[fn.Params[i+1]]
				}
			}
			for _, rq := range ic.Requires {
				x := &EvalCtx{s: st, vars: vars, pkg: e.pkgByName[strings.SplitN(ic.Key, ".", 2)[0]]}
				st.assume(x.eval(rq.Expr).S)
			}
			for i, rq := range con.Requires {
				x := &EvalCtx{s: st, vars: c.paramVars(st), pkg: pkgOf(fn)}
				v := x.eval(rq.Expr)
				st.obligeNamed(fmt.Sprintf("%s/iface-pre:%s#%d", c.name, ic.Key, i+1), "iface-pre", v.S, "precondition must follow from the interface contract "+ic.Key+": "+rq.Src, true)
			}
		}
	}
	if con != nil {
		for _, rq := range con.Requires {
			x := &EvalCtx{s: s, vars: c.paramVars(s), pkg: pkgOf(fn)}
			v := x.eval(rq.Expr)
			c.specErrors(x, rq.Where)
			s.assume(v.S)
		}
	} else {
		// an implementation without its own contract may rely on the interface contract's preconditions
		for _, ic := range e.ifaceContractsFor(fn) {
			vars := map[string]Val{}
			for i, n := range ic.Params {
				if i+1 < len(fn.Params) {
					vars[n] = c.entryVals[fn.Params[i+1]]
				}
			}
			for _, rq := range ic.Requires {
				x := &EvalCtx{s: s, vars: vars, pkg: e.pkgByName[strings.SplitN(ic.Key, ".", 2)[0]]}
				s.assume(x.eval(rq.Expr).S)
			}
		}
	}
	c.collectEntryTerms(s)
	if con != nil {
		for _, w := range con.Witness {
			x := &EvalCtx{s: s, vars: c.paramVars(s), pkg: pkgOf(fn)}
			v := x.eval(w.Expr)
			c.specErrors(x, w.Where)
			cs := comps(v.T)
			for i, t := range flatten(v) {
				if i < len(cs) {
					c.entryTerms = append(c.entryTerms, entryTerm{w.Src + cs[i].Suffix, cs[i].Sort, t})
				}
			}
		}
	}
	c.entry = s.clone()
	if con != nil {
		c.frameOn = true
		locs, all := s.evalAssigns(con, c.paramVars(s), pkgOf(fn))
		c.frame, c.frameAll = locs, all
	}
	s.cover("cover:entry", 0, "precondition satisfiable")
	s.frames = []frame{{fn: fn, frees: frees, names: s.names, retk: func(st *State, res []Val) { st.checkPost(res) }}}
	s.fnStack = []*ssa.Function{fn}
	s.runBlock(fn.Blocks[0], nil)
	return c
}

func pkgOf(fn *ssa.Function) *ssa.Package {
	g := fn
	for g != nil {
		if g.Pkg != nil {
			return g.Pkg
		}
		if g.Parent() != nil {
			g = g.Parent()
		} else if g.Origin() != nil {
			g = g.Origin()
		} else {
			return nil
		}
	}
	return nil
}

func (c *FnCtx) checkIfacePosts(s *State, res []Val) {
	for _, ic := range c.eng.ifaceContractsFor(c.fn) {
		vars := map[string]Val{}
		if len(c.fn.Params) > 0 {
			rv := c.entryVals[c.fn.Params[0]]
			if kindOf(rv.T) == kPtr && rv.S != "" {
				vars["recv"] = Val{T: rv.T, S: app("mkI", fmt.Sprint(c.eng.tagOf(rv.T)), app("pRef", rv.S))}
			}
		}
		for i, n := range ic.Params {
			if i+1 < len(c.fn.Params) {
				vars[n] = c.entryVals[c.fn.Params[i+1]]
			}
		}
		bindResultVars(vars, res, nil, c.fn.Signature)
		for i, en := range ic.Ensures {
			x := &EvalCtx{s: s, old: c.entry, vars: vars, pkg: c.eng.pkgByName[strings.SplitN(ic.Key, ".", 2)[0]]}
			v := x.eval(en.Expr)
			c.specErrors(x, en.Where)
			s.obligeNamed(fmt.Sprintf("%s/post:%s#%d", c.name, ic.Key, i+1), "post", v.S, "interface contract "+ic.Key+": "+en.Src, true)
		}
	}
}

func (s *State) checkPost(res []Val) {
	c := s.c
	c.paths++
	if c.con == nil {
		c.checkIfacePosts(s, res)
		return
	}
	vars := c.paramVars(s)
	bindResultVars(vars, res, c.fn, c.fn.Signature)
	pkgName := ""
	if p := pkgOf(c.fn); p != nil {
		pkgName = p.Pkg.Name()
	}
	c.checkIfacePosts(s, res)
	// allocation sets of tracked types are ghost state: a function that allocates such objects must say so
	if c.frameOn && !c.frameAll {
		for k, t := range s.heap {
			if !strings.HasPrefix(k, "allocset|") {
				continue
			}
			if et, ok := c.entry.heap[k]; ok && et == t {
				continue
			}
			declared := false
			for _, l := range c.frame {
				if l.kind == "allocset" && l.prefix == k {
					declared = true
				}
			}
			if _, ok := c.entry.heap[k]; !ok && strings.HasPrefix(t, "H!") {
				continue // only read, never written
			}
			if !declared {
				s.oblige("frame", nil, c.ordinal(nil, "frame-allocset"), "false", "the function allocates objects of a tracked type but its assigns clause lacks "+strings.Replace(k, "|", "(", 1)+")", false)
			}
		}
	}
	if len(c.eng.contracts.Guardeds) > 0 && !c.con.NoLockExit && c.usesLock {
		s.oblige("lock-balance", nil, 1, eq(s.held, c.entryHeld), "the function returns with the UI mutex in the state it was entered with", true)
	}
	for i, ex := range c.con.Exits {
		x := s.invCtx()
		bindResultVars(x.vars, res, c.fn, c.fn.Signature)
		v := x.eval(ex.Expr)
		c.specErrors(x, ex.Where)
		s.oblige("exit", nil, i+1, v.S, "at every return: "+ex.Src, true)
	}
	for i, en := range c.con.Ensures {
		parts := unfoldConj(en.Expr, c.eng.contracts.Preds, pkgName, 0)
		for j, part := range parts {
			x := &EvalCtx{s: s, old: c.entry, vars: vars, pkg: pkgOf(c.fn)}
			v := x.eval(part)
			c.specErrors(x, en.Where)
			kind := "post"
			n := i + 1
			if len(parts) > 1 {
				kind = fmt.Sprintf("post#%d", i+1)
				n = j + 1
				s.obligeNamed(fmt.Sprintf("%s/post#%d.%d", c.name, i+1, j+1), "post", v.S, part.String(), true)
				continue
			}
			s.oblige(kind, nil, n, v.S, en.Src, true)
		}
	}
	s.cover("cover:exit", 0, "return path reachable")
}

// collectEntryTerms lists the scalar facts about the entry state that a replay needs:
// parameters, and one level of fields behind pointer parameters.
func (c *FnCtx) collectEntryTerms(s *State) {
	add := func(label string, v Val) {
		cs := comps(v.T)
		ts := flatten(v)
		for i, cp := range cs {
			if i < len(ts) && ts[i] != "" {
				c.entryTerms = append(c.entryTerms, entryTerm{label + cp.Suffix, cp.Sort, ts[i]})
			}
		}
	}
	for _, p := range c.fn.Params {
		v := c.entryVals[p]
		if k := kindOf(v.T); k == kStruct || k == kTuple {
			continue
		}
		add(p.Name(), v)
		if kindOf(v.T) == kStr {
			for _, f := range []string{"nl", "vlen", "blen"} {
				c.entryTerms = append(c.entryTerms, entryTerm{p.Name() + "." + f, sInt, app(f, v.S)})
			}
			for _, f := range []string{"clean", "wf"} {
				c.entryTerms = append(c.entryTerms, entryTerm{p.Name() + "." + f, sBool, app(f, v.S)})
			}
		}
		if pt := derefType(p.Type()); pt != nil {
			if st, ok := pt.Underlying().(*types.Struct); ok && v.S != "" {
				for i := 0; i < st.NumFields(); i++ {
					ft := st.Field(i).Type()
					switch kindOf(ft) {
					case kInt, kBool, kPtr, kMap, kSlice, kStr, kFloat:
						fv := s.pureLoad(&Addr{Space: "fld", Struct: pt, Field: i, Ref: v.S, T: ft})
						add(p.Name()+"->"+st.Field(i).Name(), fv)
					}
				}
			}
		}
	}
}

type keyInfo struct {
	pkg     *types.Package
	private bool
}

// reaches: package q can execute code of package p through its import graph.
func (e *Engine) reaches(q, p *types.Package) bool {
	if q == p {
		return true
	}
	k := q.Path() + ">" + p.Path()
	if v, ok := e.reachCache[k]; ok {
		return v
	}
	e.reachCache[k] = false
	r := false
	for _, imp := range q.Imports() {
		if e.reaches(imp, p) {
			r = true
			break
		}
	}
	e.reachCache[k] = r
	return r
}

// callbackFree: package p never hands out closures, function values or interface values of its own
// types, so code outside p can run p's code only by calling p's functions directly.
func (e *Engine) callbackFree(p *types.Package) bool {
	if v, ok := e.cbFree[p]; ok {
		return v
	}
	res := true
	sp := e.prog.Package(p)
	if sp == nil {
		e.cbFree[p] = false
		return false
	}
	declaredHere := func(t types.Type) bool {
		if pt, ok := t.(*types.Pointer); ok {
			t = pt.Elem()
		}
		n, ok := t.(*types.Named)
		return ok && n.Obj().Pkg() == p
	}
	for fn := range e.allFns {
		if pkgOf(fn) != sp {
			continue
		}
		for _, b := range fn.Blocks {
			for _, in := range b.Instrs {
				switch x := in.(type) {
				case *ssa.MakeInterface:
					if declaredHere(x.X.Type()) {
						res = false
					}
				case *ssa.MakeClosure:
					for _, ref := range *x.Referrers() {
						switch r := ref.(type) {
						case *ssa.Go:
						case *ssa.Call:
							if r.Call.Value != x {
								res = false
							}
						case *ssa.DebugRef:
						default:
							res = false
						}
					}
				}
			}
		}
	}
	e.cbFree[p] = res
	return res
}

func (e *Engine) ifacePkgs(t types.Type) []*types.Package {
	it, ok := t.Underlying().(*types.Interface)
	if !ok {
		return []*types.Package{nil}
	}
	var out []*types.Package
	for _, impl := range e.implementers(it) {
		if pt, ok := impl.(*types.Pointer); ok {
			impl = pt.Elem()
		}
		if n, ok := impl.(*types.Named); ok && n.Obj().Pkg() != nil {
			out = append(out, n.Obj().Pkg())
		} else {
			out = append(out, nil)
		}
	}
	if len(out) == 0 {
		out = append(out, nil)
	}
	return out
}

// ---------- "immutable after init" declarations ----------
// `//@ immutable glob X` / `//@ immutable type T` in package p: the global / every field of T (and of the
// anonymous structs nested in it) is written only by p's initialisation code. The engine checks this over the
// whole module on every run (closed world) and then keeps these locations across havocs.

func (e *Engine) initImmutables() {
	if e.immChecked {
		return
	}
	e.immChecked = true
	type tset = map[string]bool
	immTypes := tset{}
	immGlobs := map[*ssa.Global]bool{}
	pkgsOf := map[string]*ssa.Package{}
	for _, im := range e.contracts.Immutables {
		sp := e.pkgByName[im.Pkg]
		if sp == nil {
			e.immProblems = append(e.immProblems, im.Where+": unknown package "+im.Pkg)
			continue
		}
		switch im.Kind {
		case "glob":
			g, ok := sp.Members[im.Name].(*ssa.Global)
			if !ok {
				e.immProblems = append(e.immProblems, im.Where+": no global "+im.Name)
				continue
			}
			immGlobs[g] = true
			e.immPrefixes = append(e.immPrefixes, "glob|"+sp.Pkg.Name()+"."+g.Name())
		case "type":
			tm, ok := sp.Members[im.Name].(*ssa.Type)
			if !ok {
				e.immProblems = append(e.immProblems, im.Where+": no type "+im.Name)
				continue
			}
			var walk func(t types.Type)
			walk = func(t types.Type) {
				st, ok := t.Underlying().(*types.Struct)
				if !ok {
					return
				}
				k := typeKey(t)
				if immTypes[k] {
					return
				}
				immTypes[k] = true
				pkgsOf[k] = sp
				e.immPrefixes = append(e.immPrefixes, "fld|"+k+"|")
				for i := 0; i < st.NumFields(); i++ {
					walk(st.Field(i).Type())
				}
			}
			walk(tm.Type())
		}
	}
	if len(immTypes) == 0 && len(immGlobs) == 0 {
		return
	}
	// allowed writers: functions of the declaring package that run only during initialisation
	allowed := map[*ssa.Function]bool{}
	for fn := range e.allFns {
		if fn.Synthetic == "package initializer" || (fn.Name() == "init" || strings.HasPrefix(fn.Name(), "init#")) && fn.Signature.Recv() == nil {
			allowed[fn] = true
		}
	}
	// callers of every repository function
	callers := map[*ssa.Function][]*ssa.Function{}
	for g := range e.allFns {
		for _, b := range g.Blocks {
			for _, in := range b.Instrs {
				for _, op := range in.Operands(nil) {
					if f, ok := (*op).(*ssa.Function); ok && e.inRepo(f) {
						callers[f] = append(callers[f], g)
					}
				}
			}
		}
	}
	changed := true
	for changed {
		changed = false
		for fn, cs := range callers {
			if allowed[fn] || fn.Object() == nil || fn.Object().Exported() {
				continue
			}
			ok := true
			for _, g := range cs {
				if !allowed[g] {
					ok = false
				}
			}
			if ok {
				allowed[fn] = true
				changed = true
			}
		}
	}
	e.immAllowed = allowed
	for fn := range e.allFns {
		if !e.inRepo(fn) || allowed[fn] {
			continue
		}
		for _, b := range fn.Blocks {
			for _, in := range b.Instrs {
				st, ok := in.(*ssa.Store)
				if !ok {
					continue
				}
				switch a := st.Addr.(type) {
				case *ssa.Global:
					if immGlobs[a] {
						e.immProblems = append(e.immProblems, fmt.Sprintf("%s writes immutable global %s at %s", e.fnKey(fn), a.Name(), e.posOf(in)))
					}
				case *ssa.FieldAddr:
					if pt := derefType(a.X.Type()); pt != nil && immTypes[typeKey(pt)] {
						e.immProblems = append(e.immProblems, fmt.Sprintf("%s writes a field of immutable type %s at %s", e.fnKey(fn), pt, e.posOf(in)))
					}
				default:
					if pt := derefType(st.Addr.Type()); pt != nil && immTypes[typeKey(pt)] {
						e.immProblems = append(e.immProblems, fmt.Sprintf("%s overwrites a value of immutable type %s at %s", e.fnKey(fn), pt, e.posOf(in)))
					}
				}
			}
		}
	}
	sort.Strings(e.immProblems)
}

func (e *Engine) immutableKey(key string) bool {
	for _, p := range e.immPrefixes {
		if strings.HasPrefix(key, p) {
			return true
		}
	}
	return false
}

// scanCalls implements a closed-world rule over every function of the repository.
func (e *Engine) scanCalls(rule CWRule) []string {
	var bad []string
	allowed := func(k string) bool {
		for _, a := range rule.Allow {
			if matchKey(a, k) {
				return true
			}
		}
		if con := e.contracts.Funcs[k]; con != nil {
			for _, a := range con.Allows {
				if a == rule.Name {
					return true
				}
			}
		}
		return false
	}
	for fn := range e.allFns {
		if !e.inRepo(fn) {
			continue
		}
		k := e.fnKey(fn)
		if allowed(k) || e.helperOf(fn, allowed) {
			continue
		}
		for _, b := range fn.Blocks {
			for _, in := range b.Instrs {
				var refs []*ssa.Function
				for _, op := range in.Operands(nil) {
					if f, ok := (*op).(*ssa.Function); ok {
						refs = append(refs, f)
					}
				}
				if ci, ok := in.(ssa.CallInstruction); ok && ci.Common().IsInvoke() {
					// interface method of a forbidden package's type
					if n, ok := ci.Common().Value.Type().(*types.Named); ok && n.Obj().Pkg() != nil {
						for _, fp := range rule.ForbidPkgs {
							if n.Obj().Pkg().Path() == fp {
								bad = append(bad, fmt.Sprintf("%s calls %s.%s at %s", k, n.Obj().Name(), ci.Common().Method.Name(), e.posOf(in)))
							}
						}
					}
				}
				for _, f := range refs {
					if e.inRepo(f) || f.Synthetic == "package initializer" {
						continue
					}
					pp := ""
					if p := fnPkg(f); p != nil {
						pp = p.Path()
					}
					full := f.String()
					hit := false
					for _, fp := range rule.ForbidPkgs {
						if pp == fp {
							hit = true
						}
					}
					for _, ff := range rule.ForbidFns {
						if full == ff {
							hit = true
						}
					}
					if hit {
						bad = append(bad, fmt.Sprintf("%s references %s at %s", k, full, e.posOf(in)))
					}
				}
			}
		}
	}
	sort.Strings(bad)
	return bad
}

// ---------- type invariants of immutable-after-construction objects ----------
// `//@ typeinv T inv` in package p: objects of struct type T are written only by their constructors (the
// functions that allocate a T, and the closures nested in them); every constructor establishes inv before it
// hands the object out (an ordinary `ensures` of its contract). Then inv(x) may be assumed for every non-nil
// *T that is read from memory, received as a parameter or returned by a call. The first condition is checked
// over the whole module on every run.

type typeInvInfo struct {
	pred  string
	named *types.Named
	ctors map[*ssa.Function]bool
	pkg   string
}

func topFn(fn *ssa.Function) *ssa.Function {
	for fn.Parent() != nil {
		fn = fn.Parent()
	}
	return fn
}

func (e *Engine) initTypeInvs() {
	e.typeInvs = map[string]*typeInvInfo{}
	e.hasWait = map[*ssa.Function]bool{}
	for _, ti := range e.contracts.TypeInvs {
		sp := e.pkgByName[ti.Pkg]
		if sp == nil {
			e.tiProblems = append(e.tiProblems, ti.Where+": unknown package")
			continue
		}
		tsp, tname := sp, ti.Type
		if i := strings.Index(ti.Type, "."); i > 0 {
			// a type of an imported (external) package: the invariant is an assumed contract of the library that
			// produces such objects; the repository itself must not write their fields (closed-world scan)
			tsp = nil
			for _, imp := range sp.Pkg.Imports() {
				if imp.Name() == ti.Type[:i] {
					tsp = e.prog.Package(imp)
				}
			}
			tname = ti.Type[i+1:]
			if tsp == nil {
				e.tiProblems = append(e.tiProblems, ti.Where+": package of "+ti.Type+" is not imported")
				continue
			}
			e.extTypeInvs = append(e.extTypeInvs, ti.Type+" satisfies "+ti.Pred+" (assumed of library-produced objects)")
		}
		tm, ok := tsp.Members[tname].(*ssa.Type)
		if !ok {
			e.tiProblems = append(e.tiProblems, ti.Where+": no type "+ti.Type)
			continue
		}
		n, _ := tm.Type().(*types.Named)
		if n == nil {
			continue
		}
		if _, ok := e.contracts.Preds[ti.Pred]; !ok {
			e.tiProblems = append(e.tiProblems, ti.Where+": no predicate "+ti.Pred)
			continue
		}
		e.typeInvs[typeKey(n)] = &typeInvInfo{pred: ti.Pred, named: n, ctors: map[*ssa.Function]bool{}, pkg: ti.Pkg}
	}
	for fn := range e.allFns {
		if !e.inRepo(fn) {
			continue
		}
		for _, b := range fn.Blocks {
			for _, in := range b.Instrs {
				switch x := in.(type) {
				case *ssa.Alloc:
					if pt := derefType(x.Type()); pt != nil {
						if info, ok := e.typeInvs[typeKey(pt)]; ok {
							info.ctors[topFn(fn)] = true
						}
					}
				case ssa.CallInstruction:
					if c := x.Common().StaticCallee(); c != nil && c.String() == "(*sync.WaitGroup).Wait" {
						e.hasWait[fn] = true
					}
				}
			}
		}
	}
	if len(e.typeInvs) == 0 {
		return
	}
	for fn := range e.allFns {
		if !e.inRepo(fn) {
			continue
		}
		for _, b := range fn.Blocks {
			for _, in := range b.Instrs {
				st, ok := in.(*ssa.Store)
				if !ok {
					continue
				}
				var pt types.Type
				if fa, ok := st.Addr.(*ssa.FieldAddr); ok {
					pt = derefType(fa.X.Type())
				} else {
					pt = derefType(st.Addr.Type())
					// copying a whole (valid) object into a fresh local keeps the invariant
					if _, isAlloc := st.Addr.(*ssa.Alloc); isAlloc && pt != nil && kindOf(pt) == kStruct {
						continue
					}
				}
				if pt == nil {
					continue
				}
				if info, ok := e.typeInvs[typeKey(pt)]; ok && !info.ctors[topFn(fn)] {
					e.tiProblems = append(e.tiProblems, fmt.Sprintf("%s writes an object of type %s outside its constructors at %s", e.fnKey(fn), info.named.Obj().Name(), e.posOf(in)))
				}
			}
		}
	}
	sort.Strings(e.tiProblems)
}

// typeInvFact: the invariant of the object a non-nil pointer term refers to (or "" when none applies).
func (s *State) typeInvFact(t types.Type, term string) string {
	pt := derefType(t)
	if pt == nil {
		return ""
	}
	info, ok := s.c.eng.typeInvs[typeKey(pt)]
	if !ok || info.ctors[topFn(s.c.fn)] {
		return ""
	}
	p := s.c.eng.contracts.Preds[info.pred]
	if p == nil || len(p.Params) != 1 {
		return ""
	}
	x := &EvalCtx{s: s, vars: map[string]Val{p.Params[0]: {T: t, S: term}}, pkg: s.c.eng.pkgByName[info.pkg]}
	v := x.eval(p.Body)
	s.c.specErrors(x, "typeinv "+info.pred)
	return implies(not(eq(term, "0")), v.S)
}

func (e *Engine) ifaceInRepo(t types.Type) bool {
	n, ok := t.(*types.Named)
	if !ok || n.Obj().Pkg() == nil {
		return false
	}
	pp := n.Obj().Pkg().Path()
	return pp == "servitor" || strings.HasPrefix(pp, "servitor/")
}

// ifaceContractsFor: the interface-method contracts a concrete method must satisfy (behavioural subtyping).
func (e *Engine) ifaceContractsFor(fn *ssa.Function) []*Contract {
	recv := fn.Signature.Recv()
	if recv == nil || !e.inRepo(fn) {
		return nil
	}
	var out []*Contract
	for key, con := range e.contracts.Funcs {
		if con.Kind != "iface" {
			continue
		}
		parts := strings.Split(key, ".")
		if len(parts) != 3 || parts[2] != fn.Name() {
			continue
		}
		sp := e.pkgByName[parts[0]]
		if sp == nil {
			continue
		}
		tm, ok := sp.Members[parts[1]].(*ssa.Type)
		if !ok {
			continue
		}
		it, ok := tm.Type().Underlying().(*types.Interface)
		if !ok {
			continue
		}
		if types.Implements(recv.Type(), it) {
			out = append(out, con)
		}
	}
	sort.Slice(out, func(i, j int) bool { return out[i].Key < out[j].Key })
	return out
}

// spawnedUnjoined: the closure is the body of a `go` statement in a function that does not join it.
func (e *Engine) spawnedUnjoined(fn *ssa.Function) bool {
	par := fn.Parent()
	if par == nil {
		return false
	}
	for _, b := range par.Blocks {
		for _, in := range b.Instrs {
			g, ok := in.(*ssa.Go)
			if !ok {
				continue
			}
			if mc, ok := g.Call.Value.(*ssa.MakeClosure); ok && mc.Fn == fn && !e.hasWait[par] {
				return true
			}
		}
	}
	return false
}

// detFn declares (once) the function symbol that stands for result component (i,j) of a deterministic method.
func (e *Engine) detFn(key string, i, j int, args []Val, resSort string) string {
	name := fmt.Sprintf("det!%s!%d!%d", sanitize(key), i, j)
	for _, d := range e.globalDecls {
		if strings.HasPrefix(d, "(declare-fun "+name+" ") {
			return name
		}
	}
	var ps []string
	for _, a := range args {
		for _, c := range comps(a.T) {
			ps = append(ps, c.Sort)
		}
	}
	e.globalDecls = append(e.globalDecls, fmt.Sprintf("(declare-fun %s (%s) %s)", name, strings.Join(ps, " "), resSort))
	return name
}

// boxInvFor: the boxing invariant declared for (the named type behind) t, if any.
func (e *Engine) boxInvFor(t types.Type) (*BoxInv, types.Type, bool) {
	ptr := false
	if pt, ok := t.(*types.Pointer); ok {
		t = pt.Elem()
		ptr = true
	}
	n, ok := t.(*types.Named)
	if !ok || n.Obj().Pkg() == nil {
		return nil, nil, false
	}
	for i := range e.contracts.BoxInvs {
		bi := &e.contracts.BoxInvs[i]
		if bi.Type == n.Obj().Name() && bi.Pkg == n.Obj().Pkg().Name() {
			return bi, n, ptr
		}
	}
	return nil, nil, false
}

func (s *State) boxInvTerm(bi *BoxInv, named types.Type, isPtr bool, v Val) (string, bool) {
	p := s.c.eng.contracts.Preds[bi.Pred]
	if p == nil || len(p.Params) != 1 {
		return "", false
	}
	arg := v
	if isPtr {
		a := s.ptrAddr(Val{T: types.NewPointer(named), S: v.S})
		if a == nil {
			return "", false
		}
		arg = s.pureLoad(a)
		arg.T = named
	}
	x := &EvalCtx{s: s, vars: map[string]Val{p.Params[0]: arg}, pkg: s.c.eng.pkgByName[bi.Pkg]}
	t := x.eval(p.Body)
	s.c.specErrors(x, bi.Where)
	if isPtr {
		return implies(not(eq(v.S, "0")), t.S), true
	}
	return t.S, true
}

// scanMapUpdates: no map of the given named map types is written anywhere in the repository (cached JSON
// documents are shared read-only between goroutines).
func (e *Engine) scanMapUpdates(typeNames []string) []string {
	var bad []string
	isTarget := func(t types.Type) bool {
		s := types.TypeString(t, func(p *types.Package) string { return p.Name() })
		for _, n := range typeNames {
			if s == n {
				return true
			}
		}
		return false
	}
	for fn := range e.allFns {
		if !e.inRepo(fn) {
			continue
		}
		for _, b := range fn.Blocks {
			for _, in := range b.Instrs {
				if mu, ok := in.(*ssa.MapUpdate); ok && isTarget(mu.Map.Type()) {
					// building a fresh literal is fine: the map comes straight from MakeMap in the same function
					if _, fresh := mu.Map.(*ssa.MakeMap); fresh {
						continue
					}
					bad = append(bad, fmt.Sprintf("%s writes a %s at %s", e.fnKey(fn), mu.Map.Type(), e.posOf(in)))
				}
			}
		}
	}
	sort.Strings(bad)
	return bad
}

// scanAnyLists: the only place of the module that stores into a []any / [N]any is the allowed functions
// (object.GetList's singleton list); JSON lists are otherwise exactly what the decoder produced.
func (e *Engine) scanAnyLists(allow []string) []string {
	var bad []string
	ok := map[string]bool{}
	for _, a := range allow {
		ok[a] = true
	}
	for fn := range e.allFns {
		if !e.inRepo(fn) || ok[e.fnKey(fn)] {
			continue
		}
		for _, b := range fn.Blocks {
			for _, in := range b.Instrs {
				st, isStore := in.(*ssa.Store)
				if !isStore {
					continue
				}
				ia, isIA := st.Addr.(*ssa.IndexAddr)
				if !isIA {
					continue
				}
				var et types.Type
				switch u := ia.X.Type().Underlying().(type) {
				case *types.Slice:
					et = u.Elem()
				case *types.Pointer:
					if at, ok := u.Elem().Underlying().(*types.Array); ok {
						et = at.Elem()
					}
				}
				if it, isI := et.(*types.Interface); et != nil && isI && it.NumMethods() == 0 {
					bad = append(bad, fmt.Sprintf("%s stores into a list of `any` at %s", e.fnKey(fn), e.posOf(in)))
				}
			}
		}
	}
	sort.Strings(bad)
	return bad
}

// scanFanout: in every function that joins goroutines with a WaitGroup, the goroutine bodies write pairwise
// disjoint locations and the spawner does not touch them before Wait. Checked syntactically on the SSA:
//   - closures spawned once each: every Store goes to memory the closure allocated itself, or to a field of a
//     captured object; two closures never store to (or store and load) the same field of the same captured variable;
//   - a closure spawned in a loop: every Store goes to closure-local memory or to X[i] / X[i].f where i is read
//     from a cell that is allocated per iteration and written only with the loop counter;
//   - captured variables that a closure stores to (other than through such an index) are not read by the others.
func (e *Engine) scanFanout() []string {
	var bad []string
	for fn := range e.allFns {
		if !e.inRepo(fn) || !e.hasWait[fn] {
			continue
		}
		type access struct {
			write bool
			what  string // "cell:<freevar name>" or "field:<freevar>.<field>"
			pos   string
		}
		var perClosure [][]access
		var names []string
		for _, b := range fn.Blocks {
			inLoop := false
			for h, body := range e.loops(fn) {
				_ = h
				if body[b] {
					inLoop = true
				}
			}
			for _, in := range b.Instrs {
				g, ok := in.(*ssa.Go)
				if !ok {
					continue
				}
				mc, ok := g.Call.Value.(*ssa.MakeClosure)
				if !ok {
					bad = append(bad, fmt.Sprintf("%s: go statement at %s does not spawn a closure literal", e.fnKey(fn), e.posOf(in)))
					continue
				}
				cl := mc.Fn.(*ssa.Function)
				var acc []access
				// classify every load/store of the closure
				fvOf := func(v ssa.Value) (string, bool) {
					// value loaded from a free-variable cell: *fv
					if u, ok := v.(*ssa.UnOp); ok {
						if fv, ok := u.X.(*ssa.FreeVar); ok {
							return fv.Name(), true
						}
					}
					if fv, ok := v.(*ssa.FreeVar); ok {
						return fv.Name(), true
					}
					return "", false
				}
				perIterIndex := func(idx ssa.Value) bool {
					// idx (or a sum with it) is loaded from a free variable whose cell is allocated inside the loop body
					var check func(v ssa.Value, depth int) bool
					check = func(v ssa.Value, depth int) bool {
						if depth > 3 {
							return false
						}
						switch x := v.(type) {
						case *ssa.UnOp:
							if fv, ok := x.X.(*ssa.FreeVar); ok {
								for i, f := range cl.FreeVars {
									if f == fv && i < len(mc.Bindings) {
										if al, ok := mc.Bindings[i].(*ssa.Alloc); ok && al.Block() == mc.Block() {
											return true
										}
									}
								}
							}
						case *ssa.BinOp:
							return check(x.X, depth+1) || check(x.Y, depth+1)
						case *ssa.Convert:
							return check(x.X, depth+1)
						}
						return false
					}
					return check(idx, 0)
				}
				var isLocal func(v ssa.Value, depth int) bool
				isLocal = func(v ssa.Value, depth int) bool {
					if depth > 4 {
						return false
					}
					switch y := v.(type) {
					case *ssa.Alloc:
						return y.Parent() == cl
					case *ssa.Slice:
						return isLocal(y.X, depth+1)
					case *ssa.FieldAddr:
						return isLocal(y.X, depth+1)
					case *ssa.IndexAddr:
						return isLocal(y.X, depth+1)
					}
					return false
				}
				for _, cb := range cl.Blocks {
					for _, ci := range cb.Instrs {
						switch x := ci.(type) {
						case *ssa.Store:
							if isLocal(x.Addr, 0) {
								continue
							}
							switch a := x.Addr.(type) {
							case *ssa.Alloc:
								// closure-local
							case *ssa.FreeVar:
								acc = append(acc, access{true, "cell:" + a.Name(), e.posOf(ci)})
							case *ssa.FieldAddr:
								if ia, ok := a.X.(*ssa.IndexAddr); ok {
									if inLoop && perIterIndex(ia.Index) {
										continue
									}
									bad = append(bad, fmt.Sprintf("%s: goroutine body writes an indexed element at %s whose index is not the per-iteration copy of the loop counter", e.fnKey(cl), e.posOf(ci)))
									continue
								}
								if n, ok := fvOf(a.X); ok {
									st := derefType(a.X.Type()).Underlying().(*types.Struct)
									acc = append(acc, access{true, "field:" + n + "." + st.Field(a.Field).Name(), e.posOf(ci)})
								} else if _, local := a.X.(*ssa.Alloc); !local {
									bad = append(bad, fmt.Sprintf("%s: goroutine body writes through a pointer of unknown origin at %s", e.fnKey(cl), e.posOf(ci)))
								}
							case *ssa.IndexAddr:
								if inLoop && perIterIndex(a.Index) {
									continue
								}
								bad = append(bad, fmt.Sprintf("%s: goroutine body writes an indexed element at %s whose index is not the per-iteration copy of the loop counter", e.fnKey(cl), e.posOf(ci)))
							default:
								bad = append(bad, fmt.Sprintf("%s: goroutine body writes through a computed address at %s", e.fnKey(cl), e.posOf(ci)))
							}
						case *ssa.UnOp:
							if fv, ok := x.X.(*ssa.FreeVar); ok {
								acc = append(acc, access{false, "cell:" + fv.Name(), e.posOf(ci)})
							}
							if fa, ok := x.X.(*ssa.FieldAddr); ok {
								if n, ok := fvOf(fa.X); ok {
									st := derefType(fa.X.Type()).Underlying().(*types.Struct)
									acc = append(acc, access{false, "field:" + n + "." + st.Field(fa.Field).Name(), e.posOf(ci)})
								}
							}
						case *ssa.MapUpdate:
							bad = append(bad, fmt.Sprintf("%s: goroutine body writes a map at %s", e.fnKey(cl), e.posOf(ci)))
						}
					}
				}
				if inLoop {
					// instances of the same closure: its non-indexed writes must not exist
					for _, a := range acc {
						if a.write {
							bad = append(bad, fmt.Sprintf("%s: goroutine spawned in a loop writes shared %s at %s", e.fnKey(cl), a.what, a.pos))
						}
					}
				}
				perClosure = append(perClosure, acc)
				names = append(names, e.fnKey(cl))
			}
		}
		// the spawning function itself, between a go statement and the Wait that joins it
		for _, pa := range e.parentWindowAccesses(fn) {
			for i := range perClosure {
				for _, a := range perClosure[i] {
					if a.what == pa.what && (a.write || pa.write) {
						bad = append(bad, fmt.Sprintf("%s accesses %s at %s between spawning %s and the Wait that joins it, which %s (%s)", e.fnKey(fn), pa.what, pa.pos, names[i], map[bool]string{true: "writes it", false: "reads it"}[a.write], a.pos))
					}
				}
			}
			if pa.what == "indexed" {
				bad = append(bad, fmt.Sprintf("%s accesses an indexed element at %s between spawning goroutines that write indexed elements and the Wait that joins them (index is not the spawning loop's counter)", e.fnKey(fn), pa.pos))
			}
		}
		for i := range perClosure {
			for j := range perClosure {
				if i == j {
					continue
				}
				for _, a := range perClosure[i] {
					if !a.write {
						continue
					}
					for _, b := range perClosure[j] {
						if a.what == b.what {
							bad = append(bad, fmt.Sprintf("%s writes %s (%s) which %s also accesses (%s)", names[i], a.what, a.pos, names[j], b.pos))
						}
					}
				}
			}
		}
	}
	sort.Strings(bad)
	return dedupe(bad)
}

type winAccess struct {
	write bool
	what  string
	pos   string
}

// parentWindowAccesses lists the loads and stores the spawning function fn performs at program points that are
// reachable from one of its go statements without passing a (*sync.WaitGroup).Wait call, classified like the
// accesses of the goroutine bodies: "cell:<captured variable>", "field:<captured variable>.<field>", or "indexed"
// for an element of a captured slice that a goroutine writes by index (unless the index is the counter of the loop
// that spawns the goroutines: iteration j only touches element j, goroutine k<j only element k).
func (e *Engine) parentWindowAccesses(fn *ssa.Function) []winAccess {
	bound := map[*ssa.Alloc]string{} // captured cells -> free variable name
	indexedWritten := map[string]bool{}
	var gos []*ssa.Go
	for _, b := range fn.Blocks {
		for _, in := range b.Instrs {
			g, ok := in.(*ssa.Go)
			if !ok {
				continue
			}
			mc, ok := g.Call.Value.(*ssa.MakeClosure)
			if !ok {
				continue
			}
			gos = append(gos, g)
			cl := mc.Fn.(*ssa.Function)
			for i, fv := range cl.FreeVars {
				if i < len(mc.Bindings) {
					if al, ok := mc.Bindings[i].(*ssa.Alloc); ok {
						bound[al] = fv.Name()
					}
				}
			}
			for _, cb := range cl.Blocks {
				for _, ci := range cb.Instrs {
					st, ok := ci.(*ssa.Store)
					if !ok {
						continue
					}
					var ia *ssa.IndexAddr
					switch a := st.Addr.(type) {
					case *ssa.IndexAddr:
						ia = a
					case *ssa.FieldAddr:
						ia, _ = a.X.(*ssa.IndexAddr)
					}
					if ia == nil {
						continue
					}
					if u, ok := ia.X.(*ssa.UnOp); ok {
						if fv, ok := u.X.(*ssa.FreeVar); ok {
							indexedWritten[fv.Name()] = true
						}
					}
				}
			}
		}
	}
	if len(gos) == 0 {
		return nil
	}
	isWait := func(in ssa.Instruction) bool {
		c, ok := in.(*ssa.Call)
		if !ok {
			return false
		}
		callee := c.Call.StaticCallee()
		return callee != nil && callee.String() == "(*sync.WaitGroup).Wait"
	}
	// forward reachability from each go statement, cut at Wait
	type pt struct {
		b *ssa.BasicBlock
		i int
	}
	inWin := map[ssa.Instruction]bool{}
	seenBlock := map[*ssa.BasicBlock]bool{}
	var walk func(p pt)
	walk = func(p pt) {
		for k := p.i; k < len(p.b.Instrs); k++ {
			in := p.b.Instrs[k]
			if isWait(in) {
				return
			}
			inWin[in] = true
		}
		for _, sb := range p.b.Succs {
			if !seenBlock[sb] {
				seenBlock[sb] = true
				walk(pt{sb, 0})
			}
		}
	}
	for _, g := range gos {
		b := g.Block()
		for k, in := range b.Instrs {
			if in == g {
				walk(pt{b, k + 1})
			}
		}
	}
	nameOf := func(v ssa.Value) (string, bool) {
		if u, ok := v.(*ssa.UnOp); ok {
			if al, ok := u.X.(*ssa.Alloc); ok {
				if n, ok := bound[al]; ok {
					return n, true
				}
			}
		}
		return "", false
	}
	var loopCounter func(idx ssa.Value) bool
	loopCounter = func(idx ssa.Value) bool {
		// the strictly increasing counter of a loop that contains a go statement: a header phi whose back-edge
		// value is itself plus a positive constant (or that incremented value), possibly converted
		if c, ok := idx.(*ssa.Convert); ok {
			idx = c.X
		}
		// ... or the per-iteration copy of it (`i := i`): a cell that is written exactly once, with the counter
		if ld, ok := idx.(*ssa.UnOp); ok && ld.Op == token.MUL {
			if al, ok := ld.X.(*ssa.Alloc); ok {
				var stored ssa.Value
				n := 0
				var walk func(f *ssa.Function)
				walk = func(f *ssa.Function) {
					for _, b := range f.Blocks {
						for _, in := range b.Instrs {
							if st, ok := in.(*ssa.Store); ok && allocOf(st.Addr) == al {
								n++
								stored = st.Val
							}
						}
					}
					for _, an := range f.AnonFuncs {
						walk(an)
					}
				}
				walk(fn)
				if n == 1 && stored != nil {
					return loopCounter(stored)
				}
				return false
			}
		}
		incrOf := func(v ssa.Value) (*ssa.Phi, bool) {
			b, ok := v.(*ssa.BinOp)
			if !ok || b.Op != token.ADD {
				return nil, false
			}
			ph, ok := b.X.(*ssa.Phi)
			k, ok2 := b.Y.(*ssa.Const)
			if !ok || !ok2 || k.Value == nil || constant.Sign(k.Value) <= 0 {
				return nil, false
			}
			return ph, true
		}
		ph, ok := idx.(*ssa.Phi)
		if !ok {
			if ph, ok = incrOf(idx); !ok {
				return false
			}
		}
		stepOK := false
		for _, ed := range ph.Edges {
			if p2, ok := incrOf(ed); ok && p2 == ph {
				stepOK = true
			}
		}
		if !stepOK || len(ph.Edges) != 2 {
			return false
		}
		for h, body := range e.loops(fn) {
			if ph.Block() != h {
				continue
			}
			for _, g := range gos {
				if body[g.Block()] {
					return true
				}
			}
		}
		return false
	}
	var out []winAccess
	classify := func(addr ssa.Value, write bool, in ssa.Instruction) {
		switch a := addr.(type) {
		case *ssa.Alloc:
			if n, ok := bound[a]; ok {
				// a cell allocated in this very block and not yet captured is fresh in every iteration
				if a.Block() == in.Block() {
					posIn, posCap := -1, -1
					for k, bi := range a.Block().Instrs {
						if bi == in {
							posIn = k
						}
						if mc, ok := bi.(*ssa.MakeClosure); ok && posCap < 0 {
							for _, bv := range mc.Bindings {
								if bv == ssa.Value(a) {
									posCap = k
								}
							}
						}
					}
					if posIn >= 0 && posCap >= 0 && posIn < posCap {
						return
					}
				}
				out = append(out, winAccess{write, "cell:" + n, e.posOf(in)})
			}
		case *ssa.FieldAddr:
			if ia, ok := a.X.(*ssa.IndexAddr); ok {
				if n, ok := nameOf(ia.X); ok && indexedWritten[n] && !loopCounter(ia.Index) {
					out = append(out, winAccess{write, "indexed", e.posOf(in)})
				}
				return
			}
			if n, ok := nameOf(a.X); ok {
				st := derefType(a.X.Type()).Underlying().(*types.Struct)
				out = append(out, winAccess{write, "field:" + n + "." + st.Field(a.Field).Name(), e.posOf(in)})
			}
		case *ssa.IndexAddr:
			if n, ok := nameOf(a.X); ok && indexedWritten[n] && !loopCounter(a.Index) {
				out = append(out, winAccess{write, "indexed", e.posOf(in)})
			}
		}
	}
	for _, b := range fn.Blocks {
		for _, in := range b.Instrs {
			if !inWin[in] {
				continue
			}
			switch x := in.(type) {
			case *ssa.Store:
				classify(x.Addr, true, in)
			case *ssa.UnOp:
				if x.Op == token.MUL {
					classify(x.X, false, in)
				}
			}
		}
	}
	return out
}

// writersOf: the packages whose code contains an instruction that can modify heap arrays of the given key
// family ("map|<typeKey>" for maps of that type, "elem|<typeKey>" for slice/array elements of that type).
// Maps and slice elements are only ever modified by MapUpdate/delete and by stores through IndexAddr,
// append and copy (no reflection or unsafe in the module), so a callee that cannot run code of any of these
// packages cannot change them.
func (e *Engine) writersOf(family string) map[*types.Package]bool {
	if e.writerMap == nil {
		e.writerMap = map[string]map[*types.Package]bool{}
		add := func(fam string, fn *ssa.Function) {
			p := fnPkg(fn)
			if e.writerMap[fam] == nil {
				e.writerMap[fam] = map[*types.Package]bool{}
			}
			e.writerMap[fam][p] = true
		}
		for fn := range e.allFns {
			for _, b := range fn.Blocks {
				for _, in := range b.Instrs {
					switch x := in.(type) {
					case *ssa.MapUpdate:
						add("map|"+typeKey(x.Map.Type().Underlying()), fn)
					case *ssa.Store:
						if ia, ok := x.Addr.(*ssa.IndexAddr); ok {
							switch u := ia.X.Type().Underlying().(type) {
							case *types.Slice:
								add("elem|"+typeKey(u.Elem()), fn)
							case *types.Pointer:
								if at, ok := u.Elem().Underlying().(*types.Array); ok {
									add("elem|"+typeKey(at.Elem()), fn)
								}
							}
						}
						if fa, ok := x.Addr.(*ssa.FieldAddr); ok {
							if ia, ok := fa.X.(*ssa.IndexAddr); ok {
								if sl, ok := ia.X.Type().Underlying().(*types.Slice); ok {
									add("elem|"+typeKey(sl.Elem()), fn)
								}
							}
						}
					case ssa.CallInstruction:
						if bi, ok := x.Common().Value.(*ssa.Builtin); ok {
							switch bi.Name() {
							case "append", "copy":
								if sl, ok := x.Common().Args[0].Type().Underlying().(*types.Slice); ok {
									add("elem|"+typeKey(sl.Elem()), fn)
								}
							case "delete", "clear":
								if m, ok := x.Common().Args[0].Type().Underlying().(*types.Map); ok {
									add("map|"+typeKey(m), fn)
								}
							}
						}
					}
				}
			}
		}
	}
	return e.writerMap[family]
}

// keyFamily maps a heap key to its writer family ("" when the key is not a map/element array).
func keyFamily(key string) string {
	switch {
	case strings.HasPrefix(key, "mapdom|"):
		return "map|" + strings.TrimPrefix(key, "mapdom|")
	case strings.HasPrefix(key, "mapval|"):
		k := strings.TrimPrefix(key, "mapval|")
		if i := strings.Index(k, "."); i >= 0 {
			k = k[:i]
		}
		return "map|" + k
	case strings.HasPrefix(key, "elem|"):
		k := strings.TrimPrefix(key, "elem|")
		if i := strings.Index(k, "."); i >= 0 {
			k = k[:i]
		}
		return "elem|" + k
	}
	return ""
}

func (e *Engine) isTracked(t types.Type) bool {
	n, ok := t.(*types.Named)
	if !ok || n.Obj().Pkg() == nil {
		return false
	}
	for _, g := range e.contracts.Tracked {
		if g.Type == n.Obj().Name() && g.Pkg == n.Obj().Pkg().Name() {
			return true
		}
	}
	return false
}

func (e *Engine) trackedPkg(tkey string) *types.Package {
	for _, g := range e.contracts.Tracked {
		sp := e.pkgByName[g.Pkg]
		if sp == nil {
			continue
		}
		if tm, ok := sp.Members[g.Type].(*ssa.Type); ok && typeKey(tm.Type()) == tkey {
			return sp.Pkg
		}
	}
	return nil
}
