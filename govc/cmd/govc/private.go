package main

import (
	"go/types"

	"golang.org/x/tools/go/ssa"
)

// privateAllocs: allocations of a function (and of the closures nested in it) whose address never leaves the
// function: it is only dereferenced, compared, returned, kept in other private cells, or captured by closures
// that are themselves only called / spawned directly. A callee that is not one of these closures has no way to
// reach such memory, so it survives `assigns everything` and unknown calls.
func (e *Engine) privateAllocs(top *ssa.Function) map[*ssa.Alloc]bool {
	if r, ok := e.privCache[top]; ok {
		return r
	}
	var fns []*ssa.Function
	var walk func(f *ssa.Function)
	walk = func(f *ssa.Function) {
		fns = append(fns, f)
		for _, a := range f.AnonFuncs {
			walk(a)
		}
	}
	walk(top)
	// closures that are only called or spawned directly (never stored, passed or returned)
	localOnly := map[*ssa.Function]bool{}
	closureOf := map[*ssa.MakeClosure]*ssa.Function{}
	for _, f := range fns {
		for _, b := range f.Blocks {
			for _, in := range b.Instrs {
				mc, ok := in.(*ssa.MakeClosure)
				if !ok {
					continue
				}
				fn := mc.Fn.(*ssa.Function)
				closureOf[mc] = fn
				ok2 := true
				for _, r := range *mc.Referrers() {
					switch x := r.(type) {
					case *ssa.Go:
						if x.Call.Value != mc {
							ok2 = false
						}
					case *ssa.Call:
						if x.Call.Value != mc {
							ok2 = false
						}
					case *ssa.Defer:
						if x.Call.Value != mc {
							ok2 = false
						}
					case *ssa.DebugRef:
					default:
						ok2 = false
					}
				}
				if prev, seen := localOnly[fn]; seen {
					localOnly[fn] = prev && ok2
				} else {
					localOnly[fn] = ok2
				}
			}
		}
	}
	var allocs []*ssa.Alloc
	for _, f := range fns {
		for _, b := range f.Blocks {
			for _, in := range b.Instrs {
				if a, ok := in.(*ssa.Alloc); ok {
					allocs = append(allocs, a)
				}
			}
		}
	}
	private := map[*ssa.Alloc]bool{}
	for _, a := range allocs {
		private[a] = true
	}
	// iterate to a fixed point: an alloc is demoted when a value that may hold its address escapes
	for changed := true; changed; {
		changed = false
		for _, a := range allocs {
			if !private[a] {
				continue
			}
			if !e.addrStaysLocal(a, private, localOnly, closureOf) {
				private[a] = false
				changed = true
			}
		}
	}
	e.privCache[top] = private
	return private
}

// addrStaysLocal follows every value that may hold the address of `a`.
func (e *Engine) addrStaysLocal(a *ssa.Alloc, private map[*ssa.Alloc]bool, localOnly map[*ssa.Function]bool, closureOf map[*ssa.MakeClosure]*ssa.Function) bool {
	seen := map[ssa.Value]bool{}
	var work []ssa.Value
	push := func(v ssa.Value) {
		if !seen[v] {
			seen[v] = true
			work = append(work, v)
		}
	}
	push(a)
	// derived: interior addresses (&x.f, &x[i]); they may be loaded/stored through but must not escape either
	for len(work) > 0 {
		v := work[len(work)-1]
		work = work[:len(work)-1]
		refs := v.Referrers()
		if refs == nil {
			continue
		}
		for _, r := range *refs {
			switch x := r.(type) {
			case *ssa.DebugRef:
			case *ssa.UnOp: // load through the address, or comparison
			case *ssa.BinOp:
			case *ssa.Return:
			case *ssa.If:
			case *ssa.FieldAddr:
				if x.X == v {
					push(x)
				}
			case *ssa.IndexAddr:
				if x.X == v {
					push(x)
				}
			case *ssa.Slice:
				// slicing an array allocation creates a slice header that may travel; treat as escape
				return false
			case *ssa.Phi:
				push(x)
			case *ssa.Store:
				if x.Addr == v {
					continue // writing through it
				}
				// the address itself is stored somewhere: fine only into a private cell, whose loads we follow
				cell, ok := x.Addr.(*ssa.Alloc)
				if !ok || !private[cell] {
					return false
				}
				for _, cr := range *cell.Referrers() {
					if ld, ok := cr.(*ssa.UnOp); ok && ld.X == cell {
						push(ld)
					}
				}
				// the cell may also be read inside closures through a free variable
				for _, cr := range *cell.Referrers() {
					if mc, ok := cr.(*ssa.MakeClosure); ok {
						fn := closureOf[mc]
						if fn == nil || !localOnly[fn] {
							return false
						}
						for i, bnd := range mc.Bindings {
							if bnd == cell && i < len(fn.FreeVars) {
								for _, fr := range *fn.FreeVars[i].Referrers() {
									if ld, ok := fr.(*ssa.UnOp); ok {
										push(ld)
									}
								}
							}
						}
					}
				}
			case *ssa.MakeClosure:
				fn := closureOf[x]
				if fn == nil || !localOnly[fn] {
					return false
				}
				for i, bnd := range x.Bindings {
					if bnd == v && i < len(fn.FreeVars) {
						push(fn.FreeVars[i])
					}
				}
			default:
				return false
			}
		}
	}
	return true
}

// privSnapshot / privRestore keep the contents of private allocations across a havoc.
type privSaved struct {
	addr *Addr
	val  Val
}

func (s *State) privSnapshot() []privSaved {
	if len(s.fnStack) == 0 {
		return nil
	}
	priv := s.c.eng.privateAllocs(topFn(s.c.fn))
	var out []privSaved
	// the cells of captured variables are known only to the spawner and this closure; the spawner does not
	// write them after the go statement (assumed), so no callee of this body can change them
	if s.c.fn.Parent() != nil {
		for _, fv := range s.c.fn.FreeVars {
			v, ok := s.c.entryFrees[fv]
			if !ok || v.S == "" {
				continue
			}
			pt := derefType(fv.Type())
			if pt == nil || kindOf(pt) == kStruct || kindOf(pt) == kArray {
				continue
			}
			ad := &Addr{Space: "cell", Ref: v.S, T: pt}
			out = append(out, privSaved{ad, s.pureLoad(ad)})
		}
		s.c.assumed["captured variables of "+s.c.name+" are not written by the spawner after the go statement"] = true
	}
	for a, ok := range priv {
		if !ok {
			continue
		}
		v, bound := s.env[a]
		if !bound || v.S == "" {
			continue
		}
		pt := derefType(a.Type())
		switch kindOf(pt) {
		case kStruct:
			ad := &Addr{Space: "obj", Ref: v.S, T: pt}
			out = append(out, privSaved{ad, s.pureLoadDeep(ad)})
		case kArray:
			// backing arrays of slice literals: keep every element array of that element type at this base
			et := pt.Underlying().(*types.Array).Elem()
			out = append(out, privSaved{&Addr{Space: "arrbase", Ref: v.S, Elem: et, T: pt}, Val{}})
		default:
			ad := &Addr{Space: "cell", Ref: v.S, T: pt}
			out = append(out, privSaved{ad, s.pureLoad(ad)})
		}
	}
	return out
}

// pureLoadDeep reads a struct object including nested struct values.
func (s *State) pureLoadDeep(a *Addr) Val {
	st := a.T.Underlying().(*types.Struct)
	v := Val{T: a.T}
	for i := 0; i < st.NumFields(); i++ {
		ft := st.Field(i).Type()
		fa := &Addr{Space: "fld", Struct: a.T, Field: i, Ref: a.Ref, T: ft}
		if kindOf(ft) == kStruct {
			inner := s.resolvePure(fa)
			v.Flds = append(v.Flds, s.pureLoadDeep(inner))
			continue
		}
		v.Flds = append(v.Flds, s.pureLoad(fa))
	}
	return v
}

func (s *State) storeDeep(a *Addr, v Val) {
	st := a.T.Underlying().(*types.Struct)
	for i := 0; i < st.NumFields(); i++ {
		ft := st.Field(i).Type()
		fa := &Addr{Space: "fld", Struct: a.T, Field: i, Ref: a.Ref, T: ft}
		if i >= len(v.Flds) {
			continue
		}
		if kindOf(ft) == kStruct {
			// the implicit pointer to the nested object is part of the saved state
			inner := s.resolvePure(fa)
			s.storeDeep(inner, v.Flds[i])
			continue
		}
		if kindOf(ft) == kArray {
			continue
		}
		s.storeAddr(fa, v.Flds[i])
	}
}

func (s *State) privRestore(saved []privSaved, before map[string]string) {
	for _, p := range saved {
		switch p.addr.Space {
		case "obj":
			// nested-object links first (they are fields holding refs)
			st := p.addr.T.Underlying().(*types.Struct)
			for i := 0; i < st.NumFields(); i++ {
				if kindOf(st.Field(i).Type()) == kStruct {
					key := s.fldKey(p.addr.T, i, "")
					if old, ok := before[key]; ok {
						srt := arrSort(sInt, sInt)
						s.heapSet(key, srt, sto(s.heapGet(key, srt), p.addr.Ref, sel(old, p.addr.Ref)))
					}
				}
			}
			s.storeDeep(p.addr, p.val)
		case "cell":
			s.storeAddr(p.addr, p.val)
		case "arrbase":
			s.restoreElems(p.addr.Elem, nil, p.addr.Ref, before)
		}
	}
}

func (s *State) restoreElems(et types.Type, path []int, base string, before map[string]string) {
	t := pathType(et, path)
	if kindOf(t) == kStruct {
		st := t.Underlying().(*types.Struct)
		for i := 0; i < st.NumFields(); i++ {
			s.restoreElems(et, append(append([]int(nil), path...), i), base, before)
		}
		return
	}
	for _, cp := range comps(t) {
		key := elemKey(et, path, cp.Suffix)
		old, ok := before[key]
		if !ok {
			continue
		}
		srt := arrSort(sInt, arrSort(sInt, cp.Sort))
		s.heapSet(key, srt, sto(s.heapGet(key, srt), base, sel(old, base)))
	}
}
