package main

import (
	"strconv"
	"bytes"
	"context"
	"fmt"
	"os"
	"os/exec"
	"path/filepath"
	"strings"
	"sync"
	"time"
)

type solverSpec struct {
	name string
	argv func(file string, ms int) []string
}

var solvers = []solverSpec{
	{"z3-new", func(f string, ms int) []string { return []string{"z3-new", fmt.Sprintf("-t:%d", ms), f} }},
	{"z3", func(f string, ms int) []string { return []string{"z3", fmt.Sprintf("-t:%d", ms), f} }},
	{"cvc5", func(f string, ms int) []string {
		return []string{"cvc5", "--lang", "smt2", fmt.Sprintf("--tlimit=%d", ms), f}
	}},
	{"cvc5-fmf", func(f string, ms int) []string {
		return []string{"cvc5", "--lang", "smt2", "--finite-model-find", fmt.Sprintf("--tlimit=%d", ms), f}
	}},
}

type solveResult struct {
	status string // sat unsat unknown error
	solver string
	out    string
	ms     int64
}

func runSolver(ctx context.Context, sp solverSpec, file string, ms int) solveResult {
	argv := sp.argv(file, ms)
	cctx, cancel := context.WithTimeout(ctx, time.Duration(ms+1500)*time.Millisecond)
	defer cancel()
	cmd := exec.CommandContext(cctx, argv[0], argv[1:]...)
	var out bytes.Buffer
	cmd.Stdout = &out
	cmd.Stderr = &out
	t0 := time.Now()
	_ = cmd.Run()
	el := time.Since(t0).Milliseconds()
	text := out.String()
	first := strings.TrimSpace(strings.SplitN(text, "\n", 2)[0])
	st := "unknown"
	switch {
	case first == "unsat":
		st = "unsat"
	case first == "sat":
		st = "sat"
	case strings.HasPrefix(first, "(error") || strings.Contains(first, "error"):
		st = "error"
	case first == "timeout" || first == "unknown" || first == "":
		st = "unknown"
	}
	return solveResult{st, sp.name, text, el}
}

// discharge decides one obligation by racing the solvers in two stages.
func (o *Obligation) fullScript() string {
	if o.Script != "" {
		return o.Script
	}
	return o.Prefix + o.Tail
}

func discharge(o *Obligation, dir string, timeoutMs int, thorough bool) {
	if o.Status == "too-large" {
		return
	}
	if o.Script == "" {
		o.Script = o.Prefix + o.Tail
		defer func() {
			if o.Status == "unsat" || (o.Expect == "sat" && o.Status != "unsat") {
				o.Script = ""
			}
		}()
	}
	if strings.Contains(o.Script, "(assert false)\n(check-sat)") && o.Expect == "unsat" {
		// goal literally true
		o.Status = "unsat"
		o.Solver = "trivial"
		return
	}
	file := filepath.Join(dir, sanitize(o.Name)+fmt.Sprintf("_p%d_%p.smt2", o.PathID, o))
	if err := os.WriteFile(file, []byte(o.Script), 0o644); err != nil {
		o.Status = "error"
		o.Model = err.Error()
		return
	}
	t0 := time.Now()
	defer func() { o.Millis = time.Since(t0).Milliseconds() }()
	ctx := context.Background()
	stage1 := timeoutMs
	if stage1 > 2500 {
		stage1 = 2500
	}
	if o.Expect == "sat" {
		// covers: a cheap reachability probe; "unknown" is acceptable, only "unsat" signals vacuity
		r := runSolver(ctx, solvers[0], file, 700)
		o.Status, o.Solver = r.status, r.solver
		if !keepAllSMT {
			os.Remove(file)
		}
		return
	}
	r := runSolver(ctx, solvers[0], file, stage1)
	if r.status == "sat" || r.status == "unsat" {
		o.Status, o.Solver, o.Model = r.status, r.solver, modelOf(r)
		if !(thorough && r.status == "unsat" && o.Expect == "unsat") {
			if r.status == "unsat" {
				if !keepAllSMT {
					os.Remove(file)
				}
			}
			return
		}
	}
	var firstErr string
	if r.status == "error" {
		firstErr = r.solver + ": " + firstLines(r.out, 3)
	}
	// stage 2: race all
	rctx, cancel := context.WithCancel(ctx)
	defer cancel()
	ch := make(chan solveResult, len(solvers))
	var wg sync.WaitGroup
	lanes := solvers
	if thorough && o.Status == "unsat" {
		lanes = solvers[1:3]
	}
	for _, sp := range lanes {
		wg.Add(1)
		go func(sp solverSpec) {
			defer wg.Done()
			ch <- runSolver(rctx, sp, file, timeoutMs)
		}(sp)
	}
	go func() { wg.Wait(); close(ch) }()
	agree := 0
	for res := range ch {
		if thorough && o.Status == "unsat" {
			if res.status == "unsat" {
				agree++
			}
			continue
		}
		if res.status == "sat" || res.status == "unsat" {
			o.Status, o.Solver, o.Model = res.status, res.solver, modelOf(res)
			cancel()
			break
		}
		if res.status == "error" && firstErr == "" {
			firstErr = res.solver + ": " + firstLines(res.out, 3)
		}
	}
	if thorough && o.Status == "unsat" && o.Solver != "" {
		if agree > 0 {
			o.Solver += "+agree"
		} else {
			o.Solver += "+single"
		}
	}
	if o.Status == "" {
		o.Status = "unknown"
		if firstErr != "" {
			o.Status = "error"
			o.Model = firstErr
		} else if o.Expect == "unsat" {
			// undecided: look for a candidate counterexample without the quantified facts; it proves nothing by
			// itself (the dropped facts could exclude it) and is only used to build a replay on the real code
			var b strings.Builder
			for _, ln := range strings.Split(o.Script, "\n") {
				if strings.HasPrefix(ln, "(assert") && (strings.Contains(ln, "(forall ") || strings.Contains(ln, "(exists ")) {
					continue
				}
				b.WriteString(ln)
				b.WriteString("\n")
			}
			cf := file + ".cand.smt2"
			if os.WriteFile(cf, []byte(b.String()), 0o644) == nil {
				r := runSolver(ctx, solvers[0], cf, 3000)
				if r.status == "sat" {
					o.Candidate = modelOf(r)
				}
				os.Remove(cf)
			}
		}
	}
	if o.Status == "unsat" || (o.Status == "sat" && o.Expect == "sat") {
		if !keepAllSMT {
			os.Remove(file)
		}
	}
}

func modelOf(r solveResult) string {
	if r.status != "sat" {
		return ""
	}
	parts := strings.SplitN(r.out, "\n", 2)
	if len(parts) == 2 {
		return parts[1]
	}
	return ""
}

func firstLines(s string, n int) string {
	ls := strings.Split(s, "\n")
	if len(ls) > n {
		ls = ls[:n]
	}
	return strings.Join(ls, " | ")
}

// dischargeBatch decides a group of goals that share one prefix with a single incremental solver run; whatever
// is not `unsat` there is decided again on its own (with the full solver race and a model).
func dischargeBatch(group []*Obligation, dir string, timeoutMs int) {
	var b strings.Builder
	b.WriteString(group[0].Prefix)
	for _, o := range group {
		b.WriteString("(push 1)\n(assert " + o.Neg + ")\n(check-sat)\n(pop 1)\n")
	}
	file := filepath.Join(dir, fmt.Sprintf("batch_%p.smt2", group[0]))
	if err := os.WriteFile(file, []byte(b.String()), 0o644); err != nil {
		return
	}
	defer os.Remove(file)
	per := timeoutMs
	if per > 2500 {
		per = 2500
	}
	cctx, cancel := context.WithTimeout(context.Background(), time.Duration(per*len(group)+3000)*time.Millisecond)
	defer cancel()
	cmd := exec.CommandContext(cctx, "z3-new", fmt.Sprintf("-t:%d", per), file)
	var out bytes.Buffer
	cmd.Stdout = &out
	t0 := time.Now()
	_ = cmd.Run()
	el := time.Since(t0).Milliseconds()
	lines := strings.Split(strings.TrimSpace(out.String()), "\n")
	i := 0
	for _, ln := range lines {
		ln = strings.TrimSpace(ln)
		if ln != "sat" && ln != "unsat" && ln != "unknown" && ln != "timeout" {
			continue
		}
		if i >= len(group) {
			break
		}
		if ln == "unsat" {
			group[i].Status = "unsat"
			group[i].Solver = "z3-new(batch)"
			group[i].Millis = el / int64(len(group))
		}
		i++
	}
}

var keepAllSMT = os.Getenv("GOVC_KEEP_ALL") != ""

// secondPerName: in the thorough tier, how many path instances per obligation name are re-decided by the two
// other solvers (GOVC_SECOND overrides).
var secondPerName = func() int {
	if v, err := strconv.Atoi(os.Getenv("GOVC_SECOND")); err == nil && v > 0 {
		return v
	}
	return 6
}()

func dischargeAll(obls []*Obligation, dir string, timeoutMs, workers int, thorough bool) {
	os.MkdirAll(dir, 0o755)
	all0 := obls
	if keepAllSMT {
		for _, o := range obls {
			if o.Script == "" && o.Prefix != "" {
				o.Script = o.Prefix + o.Tail
			}
			os.WriteFile(filepath.Join(dir, sanitize(o.Name)+fmt.Sprintf("_p%d_%p.smt2", o.PathID, o)), []byte(o.Script), 0o644)
		}
	}
	// phase 1: batches of goals with an identical prefix
	groups := map[string][]*Obligation{}
	var order []string
	for _, o := range obls {
		if o.Expect != "unsat" || o.Status != "" || o.Prefix == "" {
			continue
		}
		if _, ok := groups[o.Prefix]; !ok {
			order = append(order, o.Prefix)
		}
		groups[o.Prefix] = append(groups[o.Prefix], o)
	}
	{
		gch := make(chan []*Obligation)
		var gwg sync.WaitGroup
		for i := 0; i < workers; i++ {
			gwg.Add(1)
			go func() {
				defer gwg.Done()
				for g := range gch {
					dischargeBatch(g, dir, timeoutMs)
				}
			}()
		}
		for _, k := range order {
			g := groups[k]
			if len(g) < 2 {
				continue
			}
			for len(g) > 0 {
				n := len(g)
				if n > 40 {
					n = 40
				}
				gch <- g[:n]
				g = g[n:]
			}
		}
		close(gch)
		gwg.Wait()
	}
	// phase 2: everything still open, one by one
	var rest []*Obligation
	for _, o := range obls {
		if o.Status == "" {
			rest = append(rest, o)
		}
	}
	obls = rest
	ch := make(chan *Obligation)
	var wg sync.WaitGroup
	for i := 0; i < workers; i++ {
		wg.Add(1)
		go func() {
			defer wg.Done()
			for o := range ch {
				discharge(o, dir, timeoutMs, false)
			}
		}()
	}
	for _, o := range obls {
		ch <- o
	}
	close(ch)
	wg.Wait()
	if !thorough {
		return
	}
	// phase 3 (thorough tier): every discharged goal is put to a second solver as well; agreement is recorded
	// with the obligation ("+agree"), disagreement (a model from the second solver) reopens it
	ch2 := make(chan *Obligation)
	var wg2 sync.WaitGroup
	for i := 0; i < workers; i++ {
		wg2.Add(1)
		go func() {
			defer wg2.Done()
			for o := range ch2 {
				secondOpinion(o, dir)
			}
		}()
	}
	// one path instance per obligation name (the instances of one name share the clause and differ in the path)
	seen := map[string]int{}
	for _, o := range all0 {
		if o.Expect == "unsat" && o.Status == "unsat" && o.Solver != "trivial" && (o.Prefix != "" || o.Script != "") {
			if seen[o.Name] >= secondPerName {
				continue
			}
			seen[o.Name]++
			ch2 <- o
		}
	}
	close(ch2)
	wg2.Wait()
}

func secondOpinion(o *Obligation, dir string) {
	script := o.Script
	if script == "" {
		script = o.Prefix + o.Tail
	}
	file := filepath.Join(dir, sanitize(o.Name)+fmt.Sprintf("_2nd_p%d_%p.smt2", o.PathID, o))
	if err := os.WriteFile(file, []byte(script), 0o644); err != nil {
		return
	}
	defer os.Remove(file)
	ctx, cancel := context.WithCancel(context.Background())
	defer cancel()
	ch := make(chan solveResult, 2)
	for _, sp := range solvers[1:3] {
		go func(sp solverSpec) { ch <- runSolver(ctx, sp, file, 15000) }(sp)
	}
	verdict := "+single"
	for i := 0; i < 2; i++ {
		r := <-ch
		if r.status == "unsat" {
			verdict = "+agree"
			break
		}
		if r.status == "sat" {
			o.Status, o.Solver, o.Model = "sat", r.solver+"(second opinion)", modelOf(r)
			o.Script = script
			return
		}
	}
	o.Solver += verdict
}
