package main

import (
	"bytes"
	"context"
	"encoding/json"
	"fmt"
	"os"
	"os/exec"
	"path/filepath"
	"regexp"
	"strings"
	"time"
)

// A replay file is a JSON document: the failed obligation, the solver's answer and, when a replay
// builder exists for the function, a Go test that is injected into the real package with -overlay.
type ReplayFile struct {
	Property   string            `json:"property"`
	Obligation string            `json:"obligation"`
	Status     string            `json:"status"`
	Position   string            `json:"position"`
	Clause     string            `json:"clause"`
	Solver     string            `json:"solver"`
	Detail     string            `json:"detail"`
	Values     map[string]string `json:"entry_values,omitempty"`
	Model      string            `json:"solver_output"`
	PkgDir     string            `json:"pkg_dir,omitempty"`
	TestName   string            `json:"test_name,omitempty"`
	TestSrc    string            `json:"test_source,omitempty"`
	Result     string            `json:"replay_result"`
	Output     string            `json:"replay_output,omitempty"`
	SMT        string            `json:"smt_file,omitempty"`
}

type replayBuilder func(vals map[string]string, sm *oblSummary) (pkgDir, testName, src string, ok bool)

var replayBuilders = map[string]replayBuilder{}

// witnessBuilders: keyed by obligation name; used when the solver refutes nothing but cannot prove either.
var witnessBuilders = map[string]replayBuilder{}

var getValueRe = regexp.MustCompile(`\(\s*\|?([^\s()|]+)\|?\s+((?:\([^()]*(?:\([^()]*\)[^()]*)*\))|[^\s()]+)\s*\)`)

// parseValues reads "(get-value ...)" style output "((name value) ...)" into a map.
func parseValues(out string) map[string]string {
	m := map[string]string{}
	for _, g := range getValueRe.FindAllStringSubmatch(out, -1) {
		m[g[1]] = normValue(g[2])
	}
	return m
}

func normValue(v string) string {
	v = strings.TrimSpace(v)
	if strings.HasPrefix(v, "(- ") && strings.HasSuffix(v, ")") {
		return "-" + strings.TrimSpace(v[3:len(v)-1])
	}
	return v
}

func buildReplay(eng *Engine, repo, pid string, sm *oblSummary, path string) string {
	rf := ReplayFile{Property: pid, Obligation: sm.Name, Status: sm.Status, Position: sm.Pos, Clause: sm.Desc, Solver: sm.Solver, Detail: sm.Detail, Model: sm.Model, Result: "no-failing-input-found"}
	if sm.Script != "" {
		smt := strings.TrimSuffix(path, ".replay") + ".smt2"
		if os.WriteFile(smt, []byte(sm.Script), 0o644) == nil {
			rf.SMT = smt
		}
	}
	if sm.Status != "refuted" && sm.Candidate != "" {
		// undecided, but a candidate input exists (found without the quantified facts): only a failing replay counts
		if b, ok := replayBuilders[sm.Func]; ok {
			vals := parseValues(sm.Candidate)
			if dir, name, src, ok := b(vals, sm); ok {
				failed, out := runOverlayTest(repo, dir, name, src)
				if failed {
					rf.Values = vals
					rf.PkgDir, rf.TestName, rf.TestSrc = dir, name, src
					rf.Output = out
					rf.Result = "confirmed"
					rf.Detail += " (solver undecided; a candidate input found without the quantified facts fails on the real code)"
					data, _ := json.MarshalIndent(rf, "", " ")
					os.WriteFile(path, append(data, '\n'), 0o644)
					return "confirmed"
				}
			}
		}
	}
	if sm.Status != "refuted" {
		// no solver model: a witness attached to this obligation (written with the contract) is tried instead
		if b, ok := witnessBuilders[sm.Name]; ok {
			if dir, name, src, ok := b(nil, sm); ok {
				rf.PkgDir, rf.TestName, rf.TestSrc = dir, name, src
				failed, out := runOverlayTest(repo, dir, name, src)
				rf.Output = out
				if failed {
					rf.Result = "confirmed"
					rf.Detail += " (no solver model; the witness input recorded for this obligation fails on the real code)"
				} else {
					rf.Result = "not-confirmed"
				}
			}
		}
	}
	if sm.Status == "refuted" {
		rf.Values = parseValues(sm.Model)
		if _, ok := replayBuilders[sm.Func]; ok {
			if small := minimiseModel(sm.Script); small != nil {
				rf.Values = small
			}
		}
		if b, ok := replayBuilders[sm.Func]; ok {
			if dir, name, src, ok := b(rf.Values, sm); ok {
				rf.PkgDir, rf.TestName, rf.TestSrc = dir, name, src
				failed, out := runOverlayTest(repo, dir, name, src)
				rf.Output = out
				if failed {
					rf.Result = "confirmed"
				} else {
					rf.Result = "not-confirmed"
				}
			}
		}
	}
	data, _ := json.MarshalIndent(rf, "", " ")
	os.WriteFile(path, append(data, '\n'), 0o644)
	if rf.Result == "confirmed" {
		return "confirmed"
	}
	return rf.Result
}

// runOverlayTest injects an in-package test into the real repository via -overlay and runs it.
// It returns failed=true when the test fails (i.e. the counterexample is real).
func runOverlayTest(repo, pkgDir, testName, src string) (bool, string) {
	tmp, err := os.MkdirTemp("", "govc-replay-")
	if err != nil {
		return false, err.Error()
	}
	defer os.RemoveAll(tmp)
	testFile := filepath.Join(tmp, "zz_replay_test.go")
	if err := os.WriteFile(testFile, []byte(src), 0o644); err != nil {
		return false, err.Error()
	}
	ov := map[string]any{"Replace": map[string]string{filepath.Join(repo, pkgDir, "zz_replay_test.go"): testFile}}
	ovData, _ := json.Marshal(ov)
	ovFile := filepath.Join(tmp, "overlay.json")
	os.WriteFile(ovFile, ovData, 0o644)
	ctx, cancel := context.WithTimeout(context.Background(), 120*time.Second)
	defer cancel()
	cmd := exec.CommandContext(ctx, "go", "test", "-overlay", ovFile, "-vet=off", "-count=1", "-timeout", "60s", "-run", "^"+testName+"$", "./"+pkgDir)
	cmd.Dir = repo
	cmd.Env = append(os.Environ(), "GOFLAGS=-mod=mod", "GOPROXY=off", "GOSUMDB=off", "GOTOOLCHAIN=local", "XDG_CONFIG_HOME="+tmp, "GOCACHE="+goCache())
	var out bytes.Buffer
	cmd.Stdout = &out
	cmd.Stderr = &out
	err = cmd.Run()
	text := out.String()
	if len(text) > 6000 {
		text = text[:6000]
	}
	if err == nil {
		return false, text
	}
	// build failures are not confirmations
	if strings.Contains(text, "[build failed]") || strings.Contains(text, "[setup failed]") {
		return false, text
	}
	return strings.Contains(text, "--- FAIL") || strings.Contains(text, "panic:") || strings.Contains(text, "FAIL"), text
}

// runOverlayTestV: like runOverlayTest with -v (so that t.Logf lines are in the output) and a longer timeout.
func runOverlayTestV(repo, pkgDir, testName, src string) (bool, string) {
	tmp, err := os.MkdirTemp("", "govc-conf-")
	if err != nil {
		return false, err.Error()
	}
	defer os.RemoveAll(tmp)
	testFile := filepath.Join(tmp, "zz_conformance_test.go")
	if err := os.WriteFile(testFile, []byte(src), 0o644); err != nil {
		return false, err.Error()
	}
	ov := map[string]any{"Replace": map[string]string{filepath.Join(repo, pkgDir, "zz_conformance_test.go"): testFile}}
	ovData, _ := json.Marshal(ov)
	ovFile := filepath.Join(tmp, "overlay.json")
	os.WriteFile(ovFile, ovData, 0o644)
	ctx, cancel := context.WithTimeout(context.Background(), 900*time.Second)
	defer cancel()
	cmd := exec.CommandContext(ctx, "go", "test", "-overlay", ovFile, "-vet=off", "-count=1", "-v", "-timeout", "800s", "-run", "^"+testName+"$", "./"+pkgDir)
	cmd.Dir = repo
	cmd.Env = append(os.Environ(), "GOFLAGS=-mod=mod", "GOPROXY=off", "GOSUMDB=off", "GOTOOLCHAIN=local", "XDG_CONFIG_HOME="+tmp, "GOCACHE="+goCache())
	var out bytes.Buffer
	cmd.Stdout = &out
	cmd.Stderr = &out
	err = cmd.Run()
	text := out.String()
	if len(text) > 8000 {
		text = text[:8000]
	}
	if err == nil {
		return false, text
	}
	return true, text
}

func goCache() string {
	if c := os.Getenv("GOCACHE"); c != "" {
		return c
	}
	out, err := exec.Command("go", "env", "GOCACHE").Output()
	if err == nil {
		return strings.TrimSpace(string(out))
	}
	return filepath.Join(os.TempDir(), "gocache")
}

func runReplayFile(path, repo string) int {
	data, err := os.ReadFile(path)
	if err != nil {
		fmt.Fprintln(os.Stderr, err)
		return 2
	}
	var rf ReplayFile
	if err := json.Unmarshal(data, &rf); err != nil {
		fmt.Fprintln(os.Stderr, err)
		return 2
	}
	fmt.Printf("replay of %s (%s): %s\n", rf.Obligation, rf.Property, rf.Clause)
	if rf.TestSrc == "" {
		fmt.Println("no executable counterexample recorded (no-failing-input-found); solver output:")
		fmt.Println(rf.Detail)
		fmt.Println(rf.Model)
		fmt.Printf("VIOLATION property=%s replay=%s no-failing-input-found\n", rf.Property, path)
		return 1
	}
	failed, out := runOverlayTest(repo, rf.PkgDir, rf.TestName, rf.TestSrc)
	fmt.Println(out)
	if failed {
		fmt.Printf("VIOLATION property=%s replay=%s\n", rf.Property, path)
		return 1
	}
	fmt.Println("replay passes on this tree")
	return 0
}

// minimiseModel re-asks the solver for a counterexample whose integer entry values are small,
// so that replays stay small; nil when no such model exists.
func minimiseModel(script string) map[string]string {
	i := strings.LastIndex(script, "(check-sat)")
	if i < 0 {
		return nil
	}
	var names []string
	for _, m := range regexp.MustCompile(`\(define-fun (ev![^ ]+) \(\) Int `).FindAllStringSubmatch(script, -1) {
		names = append(names, m[1])
	}
	if len(names) == 0 {
		return nil
	}
	for _, bound := range []int{8, 64, 4096} {
		var b strings.Builder
		b.WriteString(script[:i])
		for _, n := range names {
			fmt.Fprintf(&b, "(assert (and (<= (- %d) %s) (<= %s %d)))\n", bound, n, n, bound)
		}
		b.WriteString(script[i:])
		f, err := os.CreateTemp("", "govc-min-*.smt2")
		if err != nil {
			return nil
		}
		f.WriteString(b.String())
		f.Close()
		r := runSolver(context.Background(), solvers[0], f.Name(), 3000)
		os.Remove(f.Name())
		if r.status == "sat" {
			return parseValues(modelOf(r))
		}
	}
	return nil
}
