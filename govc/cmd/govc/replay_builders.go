package main

import (
	"fmt"
	"strconv"
	"strings"
)

func ival(vals map[string]string, k string) (int64, bool) {
	v, ok := vals["ev!"+sanitize(k)]
	if !ok {
		return 0, false
	}
	n, err := strconv.ParseInt(v, 10, 64)
	if err != nil {
		return 0, false
	}
	return n, true
}

func init() {
	replayBuilders["ansi.CenterVertically"] = func(vals map[string]string, sm *oblSummary) (string, string, string, bool) {
		p, ok1 := ival(vals, "prefix.nl")
		c, ok2 := ival(vals, "centered.nl")
		s, ok3 := ival(vals, "suffix.nl")
		h, ok4 := ival(vals, "height")
		if !(ok1 && ok2 && ok3 && ok4) || p < 0 || c < 0 || s < 0 || h < 0 || p+c+s+h > 100000 {
			return "", "", "", false
		}
		src := fmt.Sprintf(`package ansi

import (
	"strings"
	"testing"
)

// counterexample found by the solver for %s: prefix/centered/suffix with %d/%d/%d newlines, height %d
func TestGovcReplay(t *testing.T) {
	line := func(n int) string { return strings.TrimSuffix(strings.Repeat("x\n", n+1), "\n") }
	got := CenterVertically(line(%d), line(%d), line(%d), %d)
	if h := Height(got); %d >= 1 && h != %d {
		t.Fatalf("frame has %%d lines, want %%d", h, %d)
	}
}
`, sm.Name, p, c, s, h, p, c, s, h, h, h, h)
		return "ansi", "TestGovcReplay", src, true
	}
}

// fpBits parses an SMT-LIB Float64 value into its IEEE-754 bit pattern.
func fpBits(v string) (uint64, bool) {
	v = strings.TrimSpace(v)
	switch {
	case strings.HasPrefix(v, "(_ +oo"):
		return 0x7FF0000000000000, true
	case strings.HasPrefix(v, "(_ -oo"):
		return 0xFFF0000000000000, true
	case strings.HasPrefix(v, "(_ NaN"):
		return 0x7FF8000000000001, true
	case strings.HasPrefix(v, "(_ +zero"):
		return 0, true
	case strings.HasPrefix(v, "(_ -zero"):
		return 0x8000000000000000, true
	}
	if !strings.HasPrefix(v, "(fp ") {
		return 0, false
	}
	fs := strings.Fields(strings.TrimSuffix(strings.TrimPrefix(v, "(fp "), ")"))
	if len(fs) != 3 {
		return 0, false
	}
	var bits string
	for _, f := range fs {
		switch {
		case strings.HasPrefix(f, "#b"):
			bits += f[2:]
		case strings.HasPrefix(f, "#x"):
			for _, c := range f[2:] {
				n, err := strconv.ParseUint(string(c), 16, 8)
				if err != nil {
					return 0, false
				}
				bits += fmt.Sprintf("%04b", n)
			}
		default:
			return 0, false
		}
	}
	if len(bits) != 64 {
		return 0, false
	}
	u, err := strconv.ParseUint(bits, 2, 64)
	return u, err == nil
}

func init() {
	replayBuilders["object.Object.GetNumber"] = func(vals map[string]string, sm *oblSummary) (string, string, string, bool) {
		if vals["ev!present"] != "true" || vals["ev!isnum"] != "true" {
			return "", "", "", false
		}
		bits, ok := fpBits(vals["ev!num"])
		if !ok {
			return "", "", "", false
		}
		src := fmt.Sprintf(`package object

import (
	"math"
	"testing"
)

// counterexample found by the solver for %s: the JSON number with IEEE-754 bits %#x
func TestGovcReplay(t *testing.T) {
	f := math.Float64frombits(%#x)
	got, err := Object{"k": f}.GetNumber("k")
	faithful := f == math.Trunc(f) && f >= 0 && f < 18446744073709551616.0
	if faithful {
		if err != nil || float64(got) != f {
			t.Fatalf("GetNumber(%%v) = %%d, %%v; want the number itself", f, got, err)
		}
	} else if err == nil {
		t.Fatalf("GetNumber(%%v) = %%d, nil; a value that is not a non-negative integer below 2^64 must be rejected", f, got)
	}
}
`, sm.Name, bits, bits)
		return "object", "TestGovcReplay", src, true
	}
}

func init() {
	replayBuilders["config.postprocess"] = func(vals map[string]string, sm *oblSummary) (string, string, string, bool) {
		hl, ok1 := ival(vals, "hooklen")
		cs, ok2 := ival(vals, "cache")
		cx, ok3 := ival(vals, "ctx")
		to, ok4 := ival(vals, "timeout")
		if !(ok1 && ok2 && ok3 && ok4) || hl < 0 || hl > 16 {
			return "", "", "", false
		}
		hook := "["
		for i := int64(0); i < hl; i++ {
			if i > 0 {
				hook += ", "
			}
			hook += fmt.Sprintf("%q", fmt.Sprintf("arg%d", i))
		}
		hook += "]"
		toml := fmt.Sprintf("[media]\nhook = %s\n[network]\ncache_size = %d\npreload_amount = %d\ntimeout_seconds = %d\n", hook, cs, cx, to)
		src := fmt.Sprintf(`package config

import (
	"os"
	"path/filepath"
	"testing"
	"time"
)

// counterexample found by the solver for %s: a configuration file that is accepted although it is not safe to run with
func TestGovcReplay(t *testing.T) {
	file := filepath.Join(t.TempDir(), "config.toml")
	if err := os.WriteFile(file, []byte(%q), 0o644); err != nil {
		t.Fatal(err)
	}
	c, err := parse(file)
	if err != nil {
		t.Skipf("rejected by the parser: %%v", err)
	}
	if err := postprocess(c); err != nil {
		return // rejected with a diagnostic: fine
	}
	if len(c.Media.Hook) < 1 || c.Network.CacheSize < 1 || c.Network.Context < 0 || c.Network.Timeout < 0 || c.Network.Timeout %% time.Second != 0 {
		t.Fatalf("accepted configuration is not safe: hook=%%v cache_size=%%d preload_amount=%%d timeout=%%v", c.Media.Hook, c.Network.CacheSize, c.Network.Context, c.Network.Timeout)
	}
}
`, sm.Name, toml)
		return "config", "TestGovcReplay", src, true
	}
}

func init() {
	mk := func(recv, field, ctor string) replayBuilder {
		return func(vals map[string]string, sm *oblSummary) (string, string, string, bool) {
			in, ok1 := ival(vals, "input")
			n, ok2 := ival(vals, recv+"->"+field+".l")
			if !ok1 || !ok2 || n < 0 || n > 1000 {
				return "", "", "", false
			}
			src := fmt.Sprintf(`package pub

import "testing"

// counterexample found by the solver for %s: link number %d on an item with %d body links
func TestGovcReplay(t *testing.T) {
	item := %s
	link, mediaType, present := item.SelectLink(%d)
	if present && mediaType == nil {
		t.Fatalf("SelectLink(%d) = %%q with a nil media type", link)
	}
	if (%d < 1 || %d > %d) && present {
		t.Fatalf("SelectLink(%d) opened %%q although only links 1..%d exist", link)
	}
}
`, sm.Name, in, n, fmt.Sprintf(ctor, n), in, in, in, in, n, in, n)
			return "pub", "TestGovcReplay", src, true
		}
	}
	replayBuilders["pub.Post.SelectLink"] = mk("p", "bodyLinks", "&Post{bodyLinks: make([]string, %d)}")
	replayBuilders["pub.Actor.SelectLink"] = mk("a", "bioLinks", "&Actor{bioLinks: make([]string, %d)}")
}

func init() {
	witnessBuilders["pub.Collection.harvestWithEmptyCount/callsite:pub.Collection.harvestWithEmptyCount#11"] = func(vals map[string]string, sm *oblSummary) (string, string, string, bool) {
		src := `package pub

import (
	"errors"
	"net/url"
	"servitor/object"
	"strings"
	"testing"
)

// witness for "delivery is cut short only by a failing page or by more than three CONSECUTIVE empty pages":
// pages  [] [a] [] [b] [] [c] [] [d]  (embedded, no ids, so no network) -- no two empty pages are adjacent.
func TestGovcReplay(t *testing.T) {
	page := func(items []any, next any) map[string]any {
		m := map[string]any{"type": "OrderedCollectionPage", "orderedItems": items}
		if next != nil {
			m["next"] = next
		}
		return m
	}
	var chain any
	for _, name := range []string{"d", "c", "b", "a"} {
		chain = page([]any{name}, chain)
		chain = page([]any{}, chain)
	}
	construct := func(input any, _ *url.URL) Tangible {
		return NewFailure(errors.New("item " + input.(string)))
	}
	c, err := NewCollectionFromObject(object.Object(chain.(map[string]any)), nil, construct)
	if err != nil {
		t.Fatal(err)
	}
	items, _, _ := c.Harvest(4, 0)
	var got []string
	for _, it := range items {
		got = append(got, it.(*Failure).message.Error())
	}
	want := "item a,item b,item c,item d"
	if strings.Join(got, ",") != want {
		t.Fatalf("Harvest(4,0) delivered %q, want %q", strings.Join(got, ","), want)
	}
}
`
		return "pub", "TestGovcReplay", src, true
	}
}

// Reference-model replays for the scalar methods of feed.Feed and history.History (C18): the solver's entry state
// (bounds, cursor, offset / length) is rebuilt on the real types, the real method is run, and its result is compared
// with the reference model the contract states.
func init() {
	feedB := func(method string) replayBuilder {
		return func(vals map[string]string, sm *oblSummary) (string, string, string, bool) {
			up, ok1 := ival(vals, "f->upperBound")
			lo, ok2 := ival(vals, "f->lowerBound")
			ix, ok3 := ival(vals, "f->index")
			if !ok1 || !ok2 || !ok3 || up-lo > 4000 || up-lo < -4000 || ix > 1<<40 || ix < -(1<<40) {
				return "", "", "", false
			}
			off, hasOff := ival(vals, "offset")
			if !hasOff {
				off = 0
			}
			if off > 1<<40 || off < -(1<<40) {
				return "", "", "", false
			}
			var call, want string
			switch method {
			case "IsParent":
				call = fmt.Sprintf("got := f.IsParent(%d); want := %d+%d < 0", off, ix, off)
				want = "got != want"
			case "IsChild":
				call = fmt.Sprintf("got := f.IsChild(%d); want := %d+%d > 0", off, ix, off)
				want = "got != want"
			case "Contains":
				call = fmt.Sprintf("got := f.Contains(%d); want := %d+%d < %d && %d+%d > %d", off, ix, off, up, ix, off, lo)
				want = "got != want"
			case "MoveUp":
				call = fmt.Sprintf("f.MoveUp(); got := f.index; want := %d; if %d-1 > %d { want = %d - 1 }", ix, ix, lo, ix)
				want = "got != want"
			case "MoveDown":
				call = fmt.Sprintf("f.MoveDown(); got := f.index; want := %d; if %d+1 < %d { want = %d + 1 }", ix, ix, up, ix)
				want = "got != want"
			case "MoveToCenter":
				call = fmt.Sprintf("f.MoveToCenter(); got := f.index; want := %d; if 0 < %d && 0 > %d { want = 0 }", ix, up, lo)
				want = "got != want"
			default:
				return "", "", "", false
			}
			src := fmt.Sprintf(`package feed

import (
	"errors"
	"servitor/pub"
	"testing"
)

// counterexample found by the solver for %s: a feed with exclusive bounds (%d, %d), cursor %d, offset %d
func TestGovcReplay(t *testing.T) {
	f := &Feed{feed: map[int]pub.Tangible{}, upperBound: %d, lowerBound: %d, index: %d}
	for k := %d + 1; k < %d; k++ {
		f.feed[k] = pub.NewFailure(errors.New("item"))
	}
	%s
	if %s {
		t.Fatalf("%s: got %%v, the reference model says %%v", got, want)
	}
}
`, sm.Name, lo, up, ix, off, up, lo, ix, lo, up, call, want, method)
			return "feed", "TestGovcReplay", src, true
		}
	}
	for _, m := range []string{"IsParent", "IsChild", "Contains", "MoveUp", "MoveDown", "MoveToCenter"} {
		replayBuilders["feed.Feed."+m] = feedB(m)
	}
	histB := func(method string) replayBuilder {
		return func(vals map[string]string, sm *oblSummary) (string, string, string, bool) {
			ix, ok1 := ival(vals, "h->index")
			n, ok2 := ival(vals, "h->elements.l")
			if !ok1 || !ok2 || n < 0 || n > 4000 {
				return "", "", "", false
			}
			cp, ok3 := ival(vals, "h->elements.c")
			if !ok3 || cp < n || cp > 8000 {
				cp = n
			}
			var call string
			switch method {
			case "Back":
				call = fmt.Sprintf("h.Back(); want := 0; if %d > 0 { want = %d - 1 }", ix, ix)
			case "Forward":
				call = fmt.Sprintf("h.Forward(); want := %d; if %d+1 < %d { want = %d + 1 }", ix, ix, n, ix)
			default:
				return "", "", "", false
			}
			src := fmt.Sprintf(`package history

import "testing"

// counterexample found by the solver for %s: a history of %d pages with the cursor on page %d
func TestGovcReplay(t *testing.T) {
	h := &History[int]{index: %d}
	if %d > 0 {
		h.elements = make([]int, %d, %d)
	}
	%s
	if h.index != want || len(h.elements) != %d {
		t.Fatalf("%s: cursor %%d of %%d pages, the reference model says cursor %%d of %d", h.index, len(h.elements), want)
	}
}
`, sm.Name, n, ix, ix, n, n, cp, call, n, method, n)
			return "history", "TestGovcReplay", src, true
		}
	}
	replayBuilders["history.History.Back"] = histB("Back")
	replayBuilders["history.History.Forward"] = histB("Forward")
}
