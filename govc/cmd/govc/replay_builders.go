package main

import (
	"fmt"
	"strconv"
)

func ival(vals map[string]string, k string) (int64, bool) {
	v, ok := vals["ev!"+sanitize(k)]
	if !ok {
		return 0, false
	}
	n, err := strconv.ParseInt(v, 10, 64)
	if err != nil {
		return 0, false
	}
	return n, true
}

func init() {
	replayBuilders["ansi.CenterVertically"] = func(vals map[string]string, sm *oblSummary) (string, string, string, bool) {
		p, ok1 := ival(vals, "prefix.nl")
		c, ok2 := ival(vals, "centered.nl")
		s, ok3 := ival(vals, "suffix.nl")
		h, ok4 := ival(vals, "height")
		if !(ok1 && ok2 && ok3 && ok4) || p < 0 || c < 0 || s < 0 || h < 0 || p+c+s+h > 100000 {
			return "", "", "", false
		}
		src := fmt.Sprintf(`package ansi

import (
	"strings"
	"testing"
)

// counterexample found by the solver for %s: prefix/centered/suffix with %d/%d/%d newlines, height %d
func TestGovcReplay(t *testing.T) {
	line := func(n int) string { return strings.TrimSuffix(strings.Repeat("x\n", n+1), "\n") }
	got := CenterVertically(line(%d), line(%d), line(%d), %d)
	if h := Height(got); %d >= 1 && h != %d {
		t.Fatalf("frame has %%d lines, want %%d", h, %d)
	}
}
`, sm.Name, p, c, s, h, p, c, s, h, h, h, h)
		return "ansi", "TestGovcReplay", src, true
	}
}
