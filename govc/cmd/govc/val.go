package main

import (
	"fmt"
	"go/types"
	"hash/fnv"
	"strings"

	"golang.org/x/tools/go/ssa"
)

// SliceV is the symbolic slice header.
type SliceV struct{ Base, Off, Len, Cap string }

// Addr is a statically known pointer target.
type Addr struct {
	Space  string     // "fld", "elem", "cell", "glob"
	Struct types.Type // fld: the struct type (named or not) owning the field
	Field  int        // fld: field index
	Ref    string     // fld/cell: object ref; elem: backing array base
	Idx    string     // elem: absolute index into backing array
	Path   []int      // elem: field path inside a struct element
	Elem   types.Type // elem: element type of the backing array; cell: cell type
	Glob   *ssa.Global
	T      types.Type // pointee type
}

type Closure struct {
	Fn       *ssa.Function
	Bindings []Val
}

// Val is a symbolic Go value.
type Val struct {
	T    types.Type
	S    string  // scalar term (Int/Bool/Str/F64/Iface/ref)
	Sl   *SliceV // slices
	Flds []Val   // struct values and tuples
	Addr *Addr   // pointer with statically known target (may accompany S == "")
	Clo  *Closure
}

type vkind int

const (
	kBad vkind = iota
	kBool
	kInt
	kFloat
	kStr
	kPtr
	kSlice
	kMap
	kIface
	kStruct
	kTuple
	kFunc
	kChan
	kArray
)

func kindOf(t types.Type) vkind {
	if t == nil {
		return kBad
	}
	switch u := t.Underlying().(type) {
	case *types.Basic:
		switch {
		case u.Info()&types.IsBoolean != 0:
			return kBool
		case u.Info()&types.IsInteger != 0:
			return kInt
		case u.Info()&types.IsFloat != 0:
			return kFloat
		case u.Info()&types.IsString != 0:
			return kStr
		case u.Kind() == types.UnsafePointer:
			return kPtr
		case u.Kind() == types.UntypedNil:
			return kBad
		}
	case *types.Pointer:
		return kPtr
	case *types.Slice:
		return kSlice
	case *types.Map:
		return kMap
	case *types.Interface:
		return kIface
	case *types.Struct:
		return kStruct
	case *types.Tuple:
		return kTuple
	case *types.Signature:
		return kFunc
	case *types.Chan:
		return kChan
	case *types.Array:
		return kArray
	}
	return kBad
}

func sortOfKind(k vkind) string {
	switch k {
	case kBool:
		return sBool
	case kInt, kPtr, kMap, kFunc, kChan:
		return sInt
	case kFloat:
		return sF64
	case kStr:
		return sStr
	case kIface:
		return sIface
	}
	return ""
}

// comp is one flattened SMT component of a Go type.
type comp struct {
	Suffix string
	Sort   string
	T      types.Type // Go type of the leaf (slice type for its four parts)
	Part   string     // "", "b","o","l","c"
}

func comps(t types.Type) []comp {
	switch k := kindOf(t); k {
	case kSlice:
		return []comp{{".b", sInt, t, "b"}, {".o", sInt, t, "o"}, {".l", sInt, t, "l"}, {".c", sInt, t, "c"}}
	case kStruct:
		st := t.Underlying().(*types.Struct)
		var out []comp
		for i := 0; i < st.NumFields(); i++ {
			for _, c := range comps(st.Field(i).Type()) {
				c.Suffix = fmt.Sprintf(".f%d%s", i, c.Suffix)
				out = append(out, c)
			}
		}
		return out
	case kTuple:
		tp := t.(*types.Tuple)
		var out []comp
		for i := 0; i < tp.Len(); i++ {
			for _, c := range comps(tp.At(i).Type()) {
				c.Suffix = fmt.Sprintf(".r%d%s", i, c.Suffix)
				out = append(out, c)
			}
		}
		return out
	case kArray, kBad:
		return nil
	default:
		return []comp{{"", sortOfKind(k), t, ""}}
	}
}

// flatten returns the SMT terms of a value in comps order.
func flatten(v Val) []string {
	switch kindOf(v.T) {
	case kSlice:
		if v.Sl == nil {
			return []string{"0", "0", "0", "0"}
		}
		return []string{v.Sl.Base, v.Sl.Off, v.Sl.Len, v.Sl.Cap}
	case kStruct, kTuple:
		var out []string
		for _, f := range v.Flds {
			out = append(out, flatten(f)...)
		}
		return out
	case kArray, kBad:
		return nil
	}
	return []string{v.S}
}

// unflatten rebuilds a value of type t from terms; returns the rest.
func unflatten(t types.Type, terms []string) (Val, []string) {
	switch kindOf(t) {
	case kSlice:
		return Val{T: t, Sl: &SliceV{terms[0], terms[1], terms[2], terms[3]}}, terms[4:]
	case kStruct:
		st := t.Underlying().(*types.Struct)
		v := Val{T: t}
		for i := 0; i < st.NumFields(); i++ {
			var f Val
			f, terms = unflatten(st.Field(i).Type(), terms)
			v.Flds = append(v.Flds, f)
		}
		return v, terms
	case kTuple:
		tp := t.(*types.Tuple)
		v := Val{T: t}
		for i := 0; i < tp.Len(); i++ {
			var f Val
			f, terms = unflatten(tp.At(i).Type(), terms)
			v.Flds = append(v.Flds, f)
		}
		return v, terms
	case kArray, kBad:
		return Val{T: t}, terms
	}
	return Val{T: t, S: terms[0]}, terms[1:]
}

func isUnsigned(t types.Type) bool {
	b, ok := t.Underlying().(*types.Basic)
	return ok && b.Info()&types.IsUnsigned != 0
}

// intRange returns [lo, hi] of an integer type as SMT literals.
func intRange(t types.Type) (string, string) {
	b := t.Underlying().(*types.Basic)
	bits := 64
	switch b.Kind() {
	case types.Int8, types.Uint8:
		bits = 8
	case types.Int16, types.Uint16:
		bits = 16
	case types.Int32, types.Uint32:
		bits = 32
	}
	if b.Info()&types.IsUnsigned != 0 {
		switch bits {
		case 8:
			return "0", "255"
		case 16:
			return "0", "65535"
		case 32:
			return "0", "4294967295"
		}
		return "0", "18446744073709551615"
	}
	switch bits {
	case 8:
		return "(- 128)", "127"
	case 16:
		return "(- 32768)", "32767"
	case 32:
		return "(- 2147483648)", "2147483647"
	}
	return "(- 9223372036854775808)", "9223372036854775807"
}

var typeKeyCache = map[string]string{}

func typeKey(t types.Type) string {
	if b, ok := t.(*types.Basic); ok && b.Kind() != types.Invalid && int(b.Kind()) < len(types.Typ) && types.Typ[b.Kind()] != nil {
		t = types.Typ[b.Kind()]
	}
	s := types.TypeString(t, func(p *types.Package) string { return p.Name() })
	// `any` and `interface{}` are one type: one heap
	s = strings.ReplaceAll(s, "interface{}", "any")
	if k, ok := typeKeyCache[s]; ok {
		return k
	}
	var b strings.Builder
	clean := true
	for _, c := range s {
		if c >= 'a' && c <= 'z' || c >= 'A' && c <= 'Z' || c >= '0' && c <= '9' || c == '_' {
			b.WriteRune(c)
		} else if c == '.' {
			b.WriteByte('_')
		} else {
			clean = false
			switch c {
			case '*':
				b.WriteString("P")
			case '[':
				b.WriteString("L")
			case ']':
				b.WriteString("R")
			default:
			}
		}
	}
	k := b.String()
	if len(k) > 40 {
		k = k[:40]
		clean = false
	}
	if !clean {
		h := fnv.New32a()
		h.Write([]byte(s))
		k = fmt.Sprintf("%s_%x", k, h.Sum32()&0xffff)
	}
	typeKeyCache[s] = k
	return k
}

func sanitize(s string) string {
	var b strings.Builder
	for _, c := range s {
		if c >= 'a' && c <= 'z' || c >= 'A' && c <= 'Z' || c >= '0' && c <= '9' || c == '_' {
			b.WriteRune(c)
		} else {
			b.WriteByte('_')
		}
	}
	return b.String()
}

func derefType(t types.Type) types.Type {
	if p, ok := t.Underlying().(*types.Pointer); ok {
		return p.Elem()
	}
	return nil
}
