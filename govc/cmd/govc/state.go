package main

import (
	"fmt"
	"go/token"
	"go/types"
	"sort"
	"strings"

	"golang.org/x/tools/go/ssa"
)

// Obligation is one proof goal with its self-contained SMT script.
type Obligation struct {
	Prefix   string // script up to the goal (interned, shared)
	Tail     string // goal assertion, check-sat, get-value
	Neg      string // negated goal
	Name     string // <pkg>.<Func>/<kind>#<n>
	Func     string
	Kind     string
	Pos      string
	Desc     string
	Script   string
	PathID   int
	Candidate string // model found without the quantified facts when the full query stayed undecided
	Expect   string // "unsat" for goals; "sat" for covers/canaries
	Status   string
	Solver   string
	Millis   int64
	Model    string
	Contract bool // contract-level (ledger-tracked) obligation
}

// FnCtx is the per-function verification context.
type FnCtx struct {
	eng             *Engine
	fn              *ssa.Function
	name            string // display name pkg.Func
	con             *Contract
	decls           []string
	declSet         map[string]bool
	fresh           int
	lits            map[string]string // string literal -> const name
	litOrder        []string
	obls            []*Obligation
	paths           int
	ordinals        map[string]int // kind -> next ordinal (static numbering via instrOrd)
	instrOrd        map[ssa.Instruction]map[string]int
	assumed         map[string]bool // assumptions/havocs recorded
	checked         bool            // machine-arithmetic obligations on
	loopHdr         map[*ssa.BasicBlock]int
	loopBody        map[*ssa.BasicBlock]map[*ssa.BasicBlock]bool
	entry           *State // snapshot at entry (for old())
	unsup           map[string]bool
	budget          int
	frame           []frameLoc
	frameOn         bool
	frameAll        bool
	used            map[string]bool
	entryVals       map[*ssa.Parameter]Val
	entryTerms      []entryTerm
	quantHeavy      bool
	interned        map[string]string
	litText         map[string]string
	catParts        map[string][]strAtom
	entryHeld       string
	clauseErr       string
	usesLock        bool
	sorts           map[string]string
	constArrs       map[string]string
	loopUnkPkgs     []*types.Package
	cellFwd         map[string]cellStore // heap-array name -> the store that defined it (cells only)
	freshRefs       map[string]bool      // references handed out by newRef in this function's paths (pairwise distinct along a path)
	loopUnkFuncArg  bool
	loopCellAllocs  map[string][]*ssa.Alloc
	loopCellGeneric map[string]bool
	entryFrees      map[*ssa.FreeVar]Val
	useLines        bool // line-measure spec functions (mxl/fstl/lstl) are in play
	cellsMode       bool // the cell model of ansi.expand is in play
	siteProbes      map[ssa.Instruction]int
	strOrder        bool // nsx facts and associativity of concatenation are emitted
	provMode        bool // embedded JSON values inherit the provenance (servedBy) of their document
}

func (c *FnCtx) declare(name, decl string) {
	if c.declSet[name] {
		return
	}
	c.declSet[name] = true
	c.decls = append(c.decls, decl)
}

func (c *FnCtx) freshName(hint string) string {
	c.fresh++
	return fmt.Sprintf("%s!%d", sanitize(hint), c.fresh)
}

func (c *FnCtx) freshConst(hint, sort string) string {
	n := c.freshName(hint)
	c.sorts[n] = sort
	c.declare(n, fmt.Sprintf("(declare-const %s %s)", n, sort))
	return n
}

func (c *FnCtx) lit(s string) string {
	if s == "" {
		return "emp"
	}
	if n, ok := c.lits[s]; ok {
		return n
	}
	n := fmt.Sprintf("lit!%d", len(c.lits))
	c.lits[s] = n
	c.litText[n] = s
	c.litOrder = append(c.litOrder, s)
	c.declare(n, fmt.Sprintf("(declare-const %s Str) ; %q", n, s))
	return n
}

type entryTerm struct{ Label, Sort, Term string }

type cellStore struct{ prev, ref, val string }

type nameBinding struct {
	V      ssa.Value
	IsAddr bool
	Obj    types.Object // the source variable, when the binding came from a debug reference
}

type deferredCall struct {
	call *ssa.CallCommon
	args []Val
	fnv  Val
	site ssa.Instruction
}

// State is the symbolic state along one path.
type State struct {
	c           *FnCtx
	lines       []string
	env         map[ssa.Value]Val
	heap        map[string]string
	epoch       int
	alloc       string
	alloc0      string
	names       map[string]nameBinding
	defers      []deferredCall
	ghost       map[string]Val
	inLoop      map[*ssa.BasicBlock]bool
	pc          []string // branch decisions, for diagnostics
	depth       int
	dead        bool
	frees       map[*ssa.FreeVar]Val
	retk        func(*State, []Val)
	fnStack     []*ssa.Function
	locals      map[string]Val // contract-scope bindings (quantified vars, pred params)
	held        string         // ghost: mutex held (Bool term)
	frames      []frame
	havocs      []havocRec
	lastBound   string
	boxed       map[string]Val // interface term name -> the struct value that was boxed into it
	noTypeInv   bool
	inGlobalInv bool
	selfFn      Val
}

func (s *State) clone() *State {
	n := *s
	n.lines = append([]string(nil), s.lines...)
	n.env = make(map[ssa.Value]Val, len(s.env))
	for k, v := range s.env {
		n.env[k] = v
	}
	n.heap = make(map[string]string, len(s.heap))
	for k, v := range s.heap {
		n.heap[k] = v
	}
	n.names = make(map[string]nameBinding, len(s.names))
	for k, v := range s.names {
		n.names[k] = v
	}
	n.ghost = make(map[string]Val, len(s.ghost))
	for k, v := range s.ghost {
		n.ghost[k] = v
	}
	n.inLoop = make(map[*ssa.BasicBlock]bool, len(s.inLoop))
	for k, v := range s.inLoop {
		n.inLoop[k] = v
	}
	n.defers = append([]deferredCall(nil), s.defers...)
	n.pc = append([]string(nil), s.pc...)
	n.fnStack = append([]*ssa.Function(nil), s.fnStack...)
	n.frames = append([]frame(nil), s.frames...)
	n.havocs = append([]havocRec(nil), s.havocs...)
	if s.frees != nil {
		n.frees = make(map[*ssa.FreeVar]Val, len(s.frees))
		for k, v := range s.frees {
			n.frees[k] = v
		}
	}
	if s.locals != nil {
		n.locals = make(map[string]Val, len(s.locals))
		for k, v := range s.locals {
			n.locals[k] = v
		}
	}
	return &n
}

func (s *State) define(hint, sort, term string) string {
	// keep atoms as they are
	if !strings.ContainsAny(term, " (") {
		return term
	}
	n := s.c.freshName(hint)
	if strings.HasPrefix(sort, "(Array") {
		s.c.sorts[n] = sort
	}
	s.lines = append(s.lines, fmt.Sprintf("(define-fun %s () %s %s)", n, sort, term))
	return n
}

func (s *State) assume(term string) {
	if term == "true" || term == "" {
		return
	}
	s.lines = append(s.lines, "(assert "+term+")")
}

// ---------- heap ----------

func (s *State) heapGet(key, sort string) string {
	if t, ok := s.heap[key]; ok {
		return t
	}
	n := fmt.Sprintf("H!%s!%d", sanitize(key), s.rootEpoch(key))
	s.c.sorts[n] = sort
	s.c.declare(n, fmt.Sprintf("(declare-const %s %s)", n, sort))
	s.heap[key] = n
	return n
}

func (s *State) heapSet(key, sort, term string) {
	s.heap[key] = s.define("h", sort, term)
}

// havocAll forgets the whole heap (fresh epoch); alloc only grows.
func (s *State) havocAll(reason string) {
	saved := s.privSnapshot()
	before := map[string]string{}
	for k, v := range s.heap {
		before[k] = v
	}
	defer s.privRestore(saved, before)
	s.c.eng.epochCtr++
	s.epoch = s.c.eng.epochCtr
	immKeep := s.c.eng.immutableKey
	if s.c.eng.immAllowed[s.c.fn] {
		immKeep = func(string) bool { return false }
	}
	for k := range s.heap {
		if !immKeep(k) {
			delete(s.heap, k)
		}
	}
	s.havocs = append(append([]havocRec(nil), s.havocs...), havocRec{"", s.epoch, immKeep})
	na := s.c.freshConst("alloc", sInt)
	s.assume(app("<=", s.alloc, na))
	s.alloc = na
	if reason != "" {
		s.c.assumed["havoc-all: "+reason] = true
	}
}

func (s *State) rootEpoch(key string) int {
	e := 0
	for _, h := range s.havocs {
		if strings.HasPrefix(key, h.prefix) && !(h.keep != nil && h.keep(key)) {
			e = h.epoch
		}
	}
	return e
}

// havocCall forgets everything a call into the given packages may have written: the whole heap except
// unexported fields of struct types declared in packages that the callee cannot reach (no import path,
// no callbacks) -- Go's package-level encapsulation makes those unwritable from there.
func (s *State) havocCall(reason string, pkgs []*types.Package, funcArg bool) {
	eng := s.c.eng
	if s.c.frameOn && !s.c.frameAll && reason != "" {
		s.oblige("frame", nil, s.c.ordinal(nil, "frame-unknown"), "false", "call with unknown effects inside a function whose assigns clause is not `everything`: "+reason, false)
	}
	keep := func(key string) bool {
		if eng.immutableKey(key) && !eng.immAllowed[s.c.fn] {
			return true
		}
		if funcArg {
			return false
		}
		if strings.HasPrefix(key, "allocset|") {
			// only the declaring package allocates objects of a tracked type
			w := eng.trackedPkg(strings.TrimPrefix(key, "allocset|"))
			if w == nil || !eng.callbackFree(w) {
				return false
			}
			for _, q := range pkgs {
				if q == nil || eng.reaches(q, w) {
					return false
				}
			}
			return true
		}
		if fam := keyFamily(key); fam != "" {
			ws := eng.writersOf(fam)
			if len(ws) == 0 {
				return false
			}
			for w := range ws {
				if w == nil || !eng.callbackFree(w) {
					return false
				}
				pp := w.Path()
				if !(pp == "servitor" || strings.HasPrefix(pp, "servitor/")) {
					return false
				}
				for _, q := range pkgs {
					if q == nil || eng.reaches(q, w) {
						return false
					}
				}
			}
			return true
		}
		info, ok := eng.keyInfo[fldPrefixOf(key)]
		if !ok || !info.private || info.pkg == nil {
			return false
		}
		if !eng.callbackFree(info.pkg) {
			return false
		}
		for _, q := range pkgs {
			if q == nil || eng.reaches(q, info.pkg) {
				return false
			}
		}
		return true
	}
	saved := s.privSnapshot()
	before := map[string]string{}
	for k, v := range s.heap {
		before[k] = v
	}
	defer s.privRestore(saved, before)
	eng.epochCtr++
	s.epoch = eng.epochCtr
	kept := 0
	for k := range s.heap {
		if keep(k) {
			kept++
			continue
		}
		delete(s.heap, k)
	}
	s.havocs = append(append([]havocRec(nil), s.havocs...), havocRec{"", s.epoch, keep})
	na := s.c.freshConst("alloc", sInt)
	s.assume(app("<=", s.alloc, na))
	s.alloc = na
	if reason != "" {
		s.c.assumed["havoc: "+reason+" (unexported fields of packages the callee cannot reach are kept)"] = true
	}
}

func fldPrefixOf(key string) string {
	if !strings.HasPrefix(key, "fld|") {
		return ""
	}
	// fld|Type|field[.suffix]
	parts := strings.SplitN(key, "|", 3)
	if len(parts) < 3 {
		return ""
	}
	f := parts[2]
	if i := strings.Index(f, "."); i >= 0 {
		f = f[:i]
	}
	return "fld|" + parts[1] + "|" + f
}

func fieldName(st *types.Struct, i int) string {
	return st.Field(i).Name()
}

func (s *State) fldKey(structT types.Type, field int, suffix string) string {
	st := structT.Underlying().(*types.Struct)
	base := "fld|" + typeKey(structT) + "|" + fieldName(st, field)
	if _, ok := s.c.eng.keyInfo[base]; !ok {
		f := st.Field(field)
		s.c.eng.keyInfo[base] = keyInfo{pkg: f.Pkg(), private: !f.Exported() && f.Pkg() != nil}
	}
	return base + suffix
}

func elemKey(elemT types.Type, path []int, suffix string) string {
	k := "elem|" + typeKey(elemT)
	t := elemT
	for _, p := range path {
		st := t.Underlying().(*types.Struct)
		k += "." + st.Field(p).Name()
		t = st.Field(p).Type()
	}
	return k + suffix
}

func pathType(elemT types.Type, path []int) types.Type {
	t := elemT
	for _, p := range path {
		t = t.Underlying().(*types.Struct).Field(p).Type()
	}
	return t
}

// refFacts assumes heap well-formedness for freshly loaded reference-like components.
func (s *State) refFacts(c comp, term string) {
	switch {
	case c.Part == "b":
		if s.c.cellsMode {
			// the strings of a match of ansi.expand live at virtual (negative) references, see cells.go
			s.declCells()
			s.assume(or(and(app("<=", "0", term), app("<", term, s.alloc)), and(app("isCellRef", term), app("<", term, "0"))))
		} else {
			s.assume(and(app("<=", "0", term), app("<", term, s.alloc)))
		}
	case c.Part == "o":
		s.assume(app("<=", "0", term))
	case c.Part == "l":
		s.assume(app("<=", "0", term))
	case c.Part == "c":
		// len <= cap is assumed by the caller who sees both
	case c.Part == "":
		switch kindOf(c.T) {
		case kPtr, kMap, kChan:
			s.assume(and(app("<=", "0", term), app("<", term, s.alloc)))
			if kindOf(c.T) == kPtr && !s.noTypeInv {
				if f := s.typeInvFact(c.T, term); f != "" {
					s.assume(f)
				}
			}
		case kStr:
			s.strBasics(term)
		case kIface:
			// a value of a (non-empty) interface type declared in the repository is nil or holds one of
			// the module's types that implement it (closed world)
			if it, ok := c.T.Underlying().(*types.Interface); ok && it.NumMethods() > 0 && s.c.eng.ifaceInRepo(c.T) {
				s.assume(or(eq(term, "nilI"), s.implementsCond(Val{T: c.T, S: term}, it)))
			}
		case kInt:
			if isUnsigned(c.T) {
				s.assume(app("<=", "0", term))
			}
			lo, hi := intRange(c.T)
			s.assume(and(app("<=", lo, term), app("<=", term, hi)))
		}
	}
}

var stdSizes = types.SizesFor("gc", "amd64")

// maxCap: no Go slice can hold more elements than fit in the address space.
func maxCap(t types.Type) string {
	sl, ok := t.Underlying().(*types.Slice)
	if !ok {
		return "9223372036854775807"
	}
	sz := stdSizes.Sizeof(sl.Elem())
	if sz <= 1 {
		return "9223372036854775807"
	}
	return fmt.Sprint(int64(9223372036854775807) / sz)
}

func sliceFacts(v Val) string {
	if v.Sl == nil {
		return "true"
	}
	return and(app("<=", v.Sl.Cap, maxCap(v.T)), app("<=", v.Sl.Len, v.Sl.Cap), app("<=", v.Sl.Cap, "9223372036854775807"), implies(eq(v.Sl.Base, "0"), and(eq(v.Sl.Len, "0"), eq(v.Sl.Cap, "0"))))
}

// typeFacts: invariants of a value of type t that hold for every well-typed Go value.
func (s *State) typeFacts(v Val) {
	cs := comps(v.T)
	ts := flatten(v)
	for i, c := range cs {
		if i < len(ts) {
			s.refFacts(c, ts[i])
		}
	}
	s.deepSliceFacts(v)
}

func (s *State) deepSliceFacts(v Val) {
	switch kindOf(v.T) {
	case kSlice:
		s.assume(sliceFacts(v))
	case kStruct, kTuple:
		for _, f := range v.Flds {
			s.deepSliceFacts(f)
		}
	}
}

// loadAddr reads the value of type a.T at address a.
func (s *State) loadAddr(a *Addr) Val {
	a = s.resolve(a)
	t := a.T
	if a.Space == "glob" {
		if id, ok := s.c.eng.sentinelID(a.Glob); ok {
			return Val{T: t, S: s.mkErr(intLit(int64(id)))}
		}
		cs := comps(t)
		terms := make([]string, len(cs))
		for i, c := range cs {
			terms[i] = s.heapGet("glob|"+a.Glob.Pkg.Pkg.Name()+"."+a.Glob.Name()+c.Suffix, c.Sort)
		}
		if kindOf(t) == kStruct || kindOf(t) == kArray {
			// struct-valued globals are opaque objects addressed by a constant ref
			return Val{T: t}
		}
		v, _ := unflatten(t, terms)
		s.typeFacts(v)
		s.globalInvFacts(a.Glob)
		return v
	}
	switch kindOf(t) {
	case kStruct:
		st := t.Underlying().(*types.Struct)
		v := Val{T: t}
		for i := 0; i < st.NumFields(); i++ {
			fa := s.fieldAddr(a, t, i)
			v.Flds = append(v.Flds, s.loadAddr(fa))
		}
		return v
	case kArray, kBad:
		return Val{T: t}
	}
	cs := comps(t)
	terms := make([]string, len(cs))
	for i, c := range cs {
		terms[i] = s.define("ld", c.Sort, s.readComp(a, c))
	}
	v, _ := unflatten(t, terms)
	for i, c := range cs {
		s.refFacts(c, terms[i])
	}
	if kindOf(t) == kSlice {
		s.assume(sliceFacts(v))
	}
	if a.Space == "elem" && len(a.Path) == 0 {
		s.provenanceFacts(a.Ref, v)
	}
	return v
}

func (s *State) noteRefLike(key string, c comp, twoLevel bool) {
	if c.Part == "b" || (c.Part == "" && (kindOf(c.T) == kPtr || kindOf(c.T) == kMap)) {
		if twoLevel {
			s.c.eng.refKeys2[key] = true
		} else {
			s.c.eng.refKeys1[key] = true
		}
	}
}

func (s *State) readComp(a *Addr, c comp) string {
	switch a.Space {
	case "fld":
		s.noteRefLike(s.fldKey(a.Struct, a.Field, c.Suffix), c, false)
	case "elem":
		s.noteRefLike(elemKey(a.Elem, a.Path, c.Suffix), c, true)
	case "cell":
		s.noteRefLike("cell|"+typeKey(a.T)+c.Suffix, c, false)
	}
	switch a.Space {
	case "fld":
		key := s.fldKey(a.Struct, a.Field, c.Suffix)
		return sel(s.heapGet(key, arrSort(sInt, c.Sort)), a.Ref)
	case "elem":
		key := elemKey(a.Elem, a.Path, c.Suffix)
		return sel(sel(s.heapGet(key, arrSort(sInt, arrSort(sInt, c.Sort))), a.Ref), a.Idx)
	case "cell":
		key := "cell|" + typeKey(a.T) + c.Suffix
		h := s.heapGet(key, arrSort(sInt, c.Sort))
		// store forwarding for local variables that live in memory (captured by a function literal): the value
		// last stored at this very cell is read back as the stored term itself, skipping stores to OTHER cells
		// allocated in this activation (references handed out by newRef are pairwise distinct). Purely a
		// simplification of select-over-store that the solver would otherwise have to do under quantifiers.
		if s.c.freshRefs[a.Ref] {
			for n := h; ; {
				e, ok := s.c.cellFwd[n]
				if !ok {
					break
				}
				if e.ref == a.Ref {
					return e.val
				}
				if !s.c.freshRefs[e.ref] {
					break
				}
				n = e.prev
			}
		}
		return sel(h, a.Ref)
	}
	panic("readComp: bad space " + a.Space)
}

func (s *State) writeComp(a *Addr, c comp, term string) {
	switch a.Space {
	case "fld":
		key := s.fldKey(a.Struct, a.Field, c.Suffix)
		srt := arrSort(sInt, c.Sort)
		s.heapSet(key, srt, sto(s.heapGet(key, srt), a.Ref, term))
	case "elem":
		key := elemKey(a.Elem, a.Path, c.Suffix)
		srt := arrSort(sInt, arrSort(sInt, c.Sort))
		h := s.heapGet(key, srt)
		s.heapSet(key, srt, sto(h, a.Ref, sto(sel(h, a.Ref), a.Idx, term)))
	case "cell":
		key := "cell|" + typeKey(a.T) + c.Suffix
		srt := arrSort(sInt, c.Sort)
		prev := s.heapGet(key, srt)
		s.heapSet(key, srt, sto(prev, a.Ref, term))
		if s.c.cellFwd == nil {
			s.c.cellFwd = map[string]cellStore{}
		}
		s.c.cellFwd[s.heap[key]] = cellStore{prev: prev, ref: a.Ref, val: term}
	default:
		panic("writeComp: bad space " + a.Space)
	}
}

// storeAddr writes v at address a.
func (s *State) storeAddr(a *Addr, v Val) {
	a = s.resolve(a)
	t := a.T
	if a.Space == "glob" {
		cs := comps(t)
		terms := flatten(v)
		for i, c := range cs {
			if i < len(terms) {
				s.heap["glob|"+a.Glob.Pkg.Pkg.Name()+"."+a.Glob.Name()+c.Suffix] = s.define("g", c.Sort, terms[i])
			}
		}
		return
	}
	switch kindOf(t) {
	case kStruct:
		st := t.Underlying().(*types.Struct)
		for i := 0; i < st.NumFields(); i++ {
			fa := s.fieldAddr(a, t, i)
			if i < len(v.Flds) {
				s.storeAddr(fa, v.Flds[i])
			}
		}
		return
	case kArray, kBad:
		return
	}
	cs := comps(t)
	terms := flatten(v)
	for i, c := range cs {
		s.writeComp(a, c, terms[i])
	}
}

// fieldAddr computes &(*a).f_i where a points to a struct of type t.
func (s *State) fieldAddr(a *Addr, t types.Type, i int) *Addr {
	st := t.Underlying().(*types.Struct)
	ft := st.Field(i).Type()
	switch a.Space {
	case "elem":
		return &Addr{Space: "elem", Ref: a.Ref, Idx: a.Idx, Elem: a.Elem, Path: append(append([]int(nil), a.Path...), i), T: ft}
	case "obj":
		fa := &Addr{Space: "fld", Struct: t, Field: i, Ref: a.Ref, T: ft}
		return fa
	}
	panic("fieldAddr on " + a.Space)
}

// objAddr turns a pointer value into an address.
func (s *State) ptrAddr(v Val) *Addr {
	if v.Addr != nil {
		return v.Addr
	}
	pt := derefType(v.T)
	if pt == nil {
		return nil
	}
	switch kindOf(pt) {
	case kStruct:
		return &Addr{Space: "obj", Ref: v.S, T: pt}
	case kArray:
		return &Addr{Space: "arr", Ref: v.S, T: pt}
	}
	return &Addr{Space: "cell", Ref: v.S, T: pt}
}

// resolveObj: fld-addresses that hold nested structs are implicit pointers to inner objects.
func (s *State) resolve(a *Addr) *Addr {
	if a.Space == "fld" && (kindOf(a.T) == kStruct || kindOf(a.T) == kArray) {
		key := s.fldKey(a.Struct, a.Field, "")
		inner := s.define("in", sInt, sel(s.heapGet(key, arrSort(sInt, sInt)), a.Ref))
		s.assume(and(app("<", "0", inner), app("<", inner, s.alloc)))
		if kindOf(a.T) == kStruct {
			return &Addr{Space: "obj", Ref: inner, T: a.T}
		}
		return &Addr{Space: "arr", Ref: inner, T: a.T}
	}
	return a
}

// heapBoundFacts: every reference stored in the heap arrays touched so far is smaller than the allocation
// pointer (heap well-formedness), stated before an allocation so that the new object is known to be distinct
// from everything reachable -- also under quantifiers, where per-load facts do not reach.
func (s *State) heapBoundFacts() {
	if s.lastBound == s.alloc {
		return
	}
	s.lastBound = s.alloc
	keys := make([]string, 0, len(s.heap))
	for k := range s.heap {
		if s.c.eng.refKeys1[k] || s.c.eng.refKeys2[k] {
			keys = append(keys, k)
		}
	}
	sort.Strings(keys)
	// every object recorded in a tracked allocation set exists already
	var asets []string
	for k := range s.heap {
		if strings.HasPrefix(k, "allocset|") {
			asets = append(asets, k)
		}
	}
	sort.Strings(asets)
	for _, k := range asets {
		h := s.heap[k]
		r := fmt.Sprintf("r!%d", s.c.fresh)
		s.c.fresh++
		s.assume(fmt.Sprintf("(forall ((%s Int)) (! (=> (select %s %s) (< %s %s)) :pattern ((select %s %s))))", r, h, r, r, s.alloc, h, r))
	}
	for _, k := range keys {
		h := s.heap[k]
		r := fmt.Sprintf("r!%d", s.c.fresh)
		s.c.fresh++
		if s.c.eng.refKeys2[k] {
			i := fmt.Sprintf("i!%d", s.c.fresh)
			s.c.fresh++
			// only objects that exist already: the fields of objects allocated later (by a callee, say) are not
			// constrained by what the heap array happens to hold at their future address
			s.assume(fmt.Sprintf("(forall ((%s Int) (%s Int)) (! (=> (< %s %s) (< (select (select %s %s) %s) %s)) :pattern ((select (select %s %s) %s))))", r, i, r, s.alloc, h, r, i, s.alloc, h, r, i))
		} else {
			s.assume(fmt.Sprintf("(forall ((%s Int)) (! (=> (< %s %s) (< (select %s %s) %s)) :pattern ((select %s %s))))", r, r, s.alloc, h, r, s.alloc, h, r))
		}
	}
}

// newObject allocates a fresh reference.
func (s *State) newRef() string {
	if s.c.quantHeavy {
		s.heapBoundFacts()
	}
	r := s.define("ref", sInt, s.alloc)
	s.alloc = s.define("alloc", sInt, app("+", s.alloc, "1"))
	if s.c.freshRefs == nil {
		s.c.freshRefs = map[string]bool{}
	}
	s.c.freshRefs[r] = true
	return r
}

// zeroVal is the Go zero value of t.
func (s *State) zeroVal(t types.Type) Val {
	switch kindOf(t) {
	case kBool:
		return Val{T: t, S: "false"}
	case kInt, kPtr, kMap, kFunc, kChan:
		return Val{T: t, S: "0"}
	case kFloat:
		return Val{T: t, S: "(_ +zero 11 53)"}
	case kStr:
		return Val{T: t, S: "emp"}
	case kIface:
		return Val{T: t, S: "nilI"}
	case kSlice:
		return Val{T: t, Sl: &SliceV{"0", "0", "0", "0"}}
	case kStruct:
		st := t.Underlying().(*types.Struct)
		v := Val{T: t}
		for i := 0; i < st.NumFields(); i++ {
			v.Flds = append(v.Flds, s.zeroVal(st.Field(i).Type()))
		}
		return v
	case kTuple:
		tp := t.(*types.Tuple)
		v := Val{T: t}
		for i := 0; i < tp.Len(); i++ {
			v.Flds = append(v.Flds, s.zeroVal(tp.At(i).Type()))
		}
		return v
	}
	return Val{T: t}
}

// allocObj allocates and zero-initialises an object of type t, returning the pointer value.
func (s *State) allocObj(t types.Type, ptrT types.Type) Val {
	r := s.newRef()
	switch kindOf(t) {
	case kStruct:
		s.initStruct(r, t)
		if s.c.eng.isTracked(t) {
			key := "allocset|" + typeKey(t)
			srt := arrSort(sInt, sBool)
			s.heapSet(key, srt, sto(s.heapGet(key, srt), r, "true"))
		}
	case kArray:
		at := t.Underlying().(*types.Array)
		// zero the backing array
		et := at.Elem()
		s.zeroElems(r, et)
	default:
		a := &Addr{Space: "cell", Ref: r, T: t}
		s.storeAddr(a, s.zeroVal(t))
	}
	return Val{T: ptrT, S: r}
}

func (s *State) zeroElems(base string, et types.Type) {
	s.zeroElemsPath(base, et, nil)
}

func (s *State) zeroElemsPath(base string, et types.Type, path []int) {
	t := pathType(et, path)
	if kindOf(t) == kStruct {
		st := t.Underlying().(*types.Struct)
		for i := 0; i < st.NumFields(); i++ {
			s.zeroElemsPath(base, et, append(append([]int(nil), path...), i))
		}
		return
	}
	z := flatten(s.zeroVal(t))
	for i, c := range comps(t) {
		key := elemKey(et, path, c.Suffix)
		srt := arrSort(sInt, arrSort(sInt, c.Sort))
		h := s.heapGet(key, srt)
		s.heapSet(key, srt, sto(h, base, s.constArr(arrSort(sInt, c.Sort), z[i])))
	}
}

// constArr is the array that maps every index to zero; cvc5 accepts `as const` only for value literals.
func (s *State) constArr(sort, zero string) string {
	if zero != "emp" {
		return fmt.Sprintf("((as const %s) %s)", sort, zero)
	}
	if n, ok := s.c.constArrs[sort]; ok {
		return n
	}
	n := s.c.freshConst("zeros", sort)
	i := fmt.Sprintf("i!%d", s.c.fresh)
	s.c.fresh++
	s.c.declare(n+"!ax", fmt.Sprintf("(assert (forall ((%s Int)) (! (= (select %s %s) %s) :pattern ((select %s %s)))))", i, n, i, zero, n, i))
	s.c.constArrs[sort] = n
	return n
}

func (s *State) initStruct(r string, t types.Type) {
	st := t.Underlying().(*types.Struct)
	for i := 0; i < st.NumFields(); i++ {
		ft := st.Field(i).Type()
		if k := kindOf(ft); k == kStruct || k == kArray {
			inner := s.newRef()
			key := s.fldKey(t, i, "")
			srt := arrSort(sInt, sInt)
			s.heapSet(key, srt, sto(s.heapGet(key, srt), r, inner))
			if k == kStruct {
				s.initStruct(inner, ft)
			} else {
				s.zeroElems(inner, ft.Underlying().(*types.Array).Elem())
			}
			continue
		}
		s.storeAddr(&Addr{Space: "fld", Struct: t, Field: i, Ref: r, T: ft}, s.zeroVal(ft))
	}
}

// ---------- maps ----------

func mapSorts(mt *types.Map) (string, []comp) {
	ks := sortOfKind(kindOf(mt.Key()))
	return ks, comps(mt.Elem())
}

func (s *State) mapDom(mt types.Type, ref string) string {
	m := mt.Underlying().(*types.Map)
	ks, _ := mapSorts(m)
	key := "mapdom|" + typeKey(mt.Underlying())
	return sel(s.heapGet(key, arrSort(sInt, arrSort(ks, sBool))), ref)
}

func (s *State) mapLookup(mt types.Type, ref, k string) (Val, string) {
	m := mt.Underlying().(*types.Map)
	ks, cs := mapSorts(m)
	ok := s.define("mok", sBool, and(not(eq(ref, "0")), sel(s.mapDom(mt, ref), k)))
	z := flatten(s.zeroVal(m.Elem()))
	terms := make([]string, len(cs))
	for i, c := range cs {
		key := "mapval|" + typeKey(mt.Underlying()) + c.Suffix
		arr := s.heapGet(key, arrSort(sInt, arrSort(ks, c.Sort)))
		terms[i] = s.define("mv", c.Sort, ite(ok, sel(sel(arr, ref), k), z[i]))
	}
	v, _ := unflatten(m.Elem(), terms)
	for i, c := range cs {
		s.refFacts(c, terms[i])
	}
	s.deepSliceFacts(v)
	s.provenanceFacts(ref, v)
	return v, ok
}

// provenanceFacts: a map or list found inside a decoded JSON document (as a map value or list element) was
// served with that document: servedBy is inherited. An axiom about json.Decoder's output (documents are trees
// that the repository never modifies -- closed-world scan "no map update") used only in `provenance` functions.
func (s *State) provenanceFacts(parent string, v Val) {
	for _, f := range s.provenanceTerms(parent, v) {
		s.assume(f)
	}
}

func (s *State) provenanceTerms(parent string, v Val) []string {
	if !s.c.provMode || v.T == nil || kindOf(v.T) != kIface || v.S == "" {
		return nil
	}
	it, ok := v.T.Underlying().(*types.Interface)
	if !ok || it.NumMethods() != 0 {
		return nil
	}
	uf, ok := s.c.eng.ufuncs["servedBy"]
	if !ok {
		return nil
	}
	anyT := types.NewInterfaceType(nil, nil)
	mapT := types.NewMap(types.Typ[types.String], anyT)
	listT := types.NewSlice(anyT)
	s.c.assumed["JSON documents: a map or list embedded in a decoded document (map value, list element) carries the document's servedBy"] = true
	return []string{
		implies(s.hasType(v, mapT), eq(app(uf.Name, app("pref", app("ipay", v.S))), app(uf.Name, parent))),
		implies(s.hasType(v, listT), eq(app(uf.Name, app("psb", app("ipay", v.S))), app(uf.Name, parent))),
	}
}

func (s *State) mapUpdate(mt types.Type, ref, k string, v Val) {
	m := mt.Underlying().(*types.Map)
	ks, cs := mapSorts(m)
	dkey := "mapdom|" + typeKey(mt.Underlying())
	dsrt := arrSort(sInt, arrSort(ks, sBool))
	dh := s.heapGet(dkey, dsrt)
	s.heapSet(dkey, dsrt, sto(dh, ref, sto(sel(dh, ref), k, "true")))
	terms := flatten(v)
	for i, c := range cs {
		key := "mapval|" + typeKey(mt.Underlying()) + c.Suffix
		srt := arrSort(sInt, arrSort(ks, c.Sort))
		h := s.heapGet(key, srt)
		s.heapSet(key, srt, sto(h, ref, sto(sel(h, ref), k, terms[i])))
	}
}

func (s *State) newMap(mt types.Type) Val {
	m := mt.Underlying().(*types.Map)
	ks, _ := mapSorts(m)
	r := s.newRef()
	dkey := "mapdom|" + typeKey(mt.Underlying())
	dsrt := arrSort(sInt, arrSort(ks, sBool))
	dh := s.heapGet(dkey, dsrt)
	s.heapSet(dkey, dsrt, sto(dh, r, fmt.Sprintf("((as const %s) false)", arrSort(ks, sBool))))
	return Val{T: mt, S: r}
}

// ---------- slices ----------

func (s *State) sliceElemAddr(v Val, idx string) *Addr {
	et := v.T.Underlying().(*types.Slice).Elem()
	abs := idx
	if v.Sl.Off != "0" {
		abs = s.define("ix", sInt, ixT(v.Sl.Off, idx))
	}
	return &Addr{Space: "elem", Ref: v.Sl.Base, Idx: abs, Elem: et, T: et}
}

// ---------- obligations ----------

func (c *FnCtx) ordinal(instr ssa.Instruction, kind string) int {
	if instr == nil {
		c.ordinals[kind]++
		return c.ordinals[kind]
	}
	m := c.instrOrd[instr]
	if m == nil {
		m = map[string]int{}
		c.instrOrd[instr] = m
	}
	if n, ok := m[kind]; ok {
		return n
	}
	c.ordinals[kind]++
	m[kind] = c.ordinals[kind]
	return m[kind]
}

func (s *State) script(goalNeg string) string {
	p, t := s.scriptParts(goalNeg)
	return p + t
}

// scriptParts: everything up to the goal (shared by all obligations emitted from the same state) and the goal tail.
func (s *State) scriptParts(goalNeg string) (string, string) {
	var b strings.Builder
	b.WriteString(prelude)
	for _, d := range s.c.eng.globalDecls {
		b.WriteString(d)
		b.WriteByte('\n')
	}
	for _, d := range s.c.decls {
		b.WriteString(d)
		b.WriteByte('\n')
	}
	for _, f := range empFacts {
		b.WriteString("(assert " + f + ")\n")
	}
	// sentinel errors are plain errors.New values: none of them wraps another
	ns := len(s.c.eng.sentinels())
	for i := 1; i <= ns; i++ {
		for j := 1; j <= ns; j++ {
			b.WriteString(fmt.Sprintf("(assert (not (errIs (- %d) (- %d))))\n", i, j))
		}
	}
	if len(s.c.litOrder) > 0 {
		names := []string{"emp"}
		for _, l := range s.c.litOrder {
			names = append(names, s.c.lits[l])
		}
		b.WriteString("(assert (distinct " + strings.Join(names, " ") + "))\n")
		for _, l := range s.c.litOrder {
			for _, f := range litFacts(s.c.lits[l], l) {
				b.WriteString("(assert " + f + ")\n")
			}
		}
	}
	for _, l := range s.lines {
		b.WriteString(l)
		b.WriteByte('\n')
	}
	var tail string
	if len(s.c.entryTerms) > 0 {
		var ns []string
		for _, et := range s.c.entryTerms {
			n := "ev!" + sanitize(et.Label)
			b.WriteString(fmt.Sprintf("(define-fun %s () %s %s)\n", n, et.Sort, et.Term))
			ns = append(ns, n)
		}
		tail = "(assert " + goalNeg + ")\n(check-sat)\n(get-value (" + strings.Join(ns, " ") + "))\n"
	} else {
		tail = "(assert " + goalNeg + ")\n(check-sat)\n(get-model)\n"
	}
	return s.c.internStr(b.String()), tail
}

// internStr shares identical prefixes between obligations.
func (c *FnCtx) internStr(x string) string {
	if c.interned == nil {
		c.interned = map[string]string{}
	}
	if y, ok := c.interned[x]; ok {
		return y
	}
	c.interned[x] = x
	return x
}

// oblige emits a proof goal: in this state, `goal` must hold.
func (s *State) oblige(kind string, instr ssa.Instruction, n int, goal, desc string, contract bool) {
	c := s.c
	if c.clauseErr != "" {
		goal = "false"
		desc += " [clause cannot be evaluated here: " + c.clauseErr + "]"
		c.clauseErr = ""
	}
	name := fmt.Sprintf("%s/%s", c.name, kind)
	if n >= 0 {
		name = fmt.Sprintf("%s/%s#%d", c.name, kind, n)
	}
	pos := ""
	if instr != nil && instr.Pos() != token.NoPos {
		p := c.eng.prog.Fset.Position(instr.Pos())
		pos = fmt.Sprintf("%s:%d", strings.TrimPrefix(p.Filename, c.eng.repo+"/"), p.Line)
	}
	o := &Obligation{Name: name, Func: c.name, Kind: kind, Pos: pos, Desc: desc, Expect: "unsat", PathID: c.paths, Contract: contract}
	o.Prefix, o.Tail = s.scriptParts(not(goal))
	o.Neg = not(goal)
	if len(o.Prefix)+len(o.Tail) > c.eng.maxVC {
		o.Status = "too-large"
	}
	c.obls = append(c.obls, o)
}

func (s *State) obligeNamed(name, kind, goal, desc string, contract bool) {
	c := s.c
	if c.clauseErr != "" {
		goal = "false"
		desc += " [clause cannot be evaluated here: " + c.clauseErr + "]"
		c.clauseErr = ""
	}
	o := &Obligation{Name: name, Func: c.name, Kind: kind, Desc: desc, Expect: "unsat", PathID: c.paths, Contract: contract}
	o.Prefix, o.Tail = s.scriptParts(not(goal))
	o.Neg = not(goal)
	if len(o.Prefix)+len(o.Tail) > c.eng.maxVC {
		o.Status = "too-large"
	}
	c.obls = append(c.obls, o)
}

// cover emits a reachability check (expected sat).
func (s *State) cover(kind string, n int, desc string) {
	c := s.c
	o := &Obligation{Name: fmt.Sprintf("%s/%s#%d", c.name, kind, n), Func: c.name, Kind: kind, Desc: desc, Expect: "sat", PathID: c.paths}
	o.Prefix, o.Tail = s.scriptParts("true")
	o.Neg = "true"
	c.obls = append(c.obls, o)
}

func sortedKeys[V any](m map[string]V) []string {
	ks := make([]string, 0, len(m))
	for k := range m {
		ks = append(ks, k)
	}
	sort.Strings(ks)
	return ks
}

// globalInvFacts: invariants of package-level state declared with `//@ globalinv` (established by the package's
// initialiser, kept by immutability) are assumed whenever one of the package's globals is read outside
// initialisation code.
func (s *State) globalInvFacts(g *ssa.Global) {
	eng := s.c.eng
	if eng.immAllowed[s.c.fn] || eng.immAllowed[topFn(s.c.fn)] || s.inGlobalInv {
		return
	}
	for _, gi := range eng.contracts.GlobalInvs {
		if g.Pkg == nil || gi.Pkg != g.Pkg.Pkg.Name() {
			continue
		}
		s.inGlobalInv = true
		x := &EvalCtx{s: s, vars: map[string]Val{}, pkg: g.Pkg}
		v := x.eval(gi.Expr)
		s.inGlobalInv = false
		s.c.specErrors(x, gi.Where)
		s.assume(v.S)
		s.c.assumed["global invariant "+gi.Src+" of package "+gi.Pkg+" (established by its initialiser, see C19; the state is immutable after init)"] = true
	}
}
