package main

import (
	"fmt"
	"math/big"
	"strings"
)

// SMT terms are plain strings in SMT-LIB 2 concrete syntax. Sorts are strings too.

const (
	sInt   = "Int"
	sBool  = "Bool"
	sStr   = "Str"
	sF64   = "F64"
	sIface = "Iface"
)

func app(op string, args ...string) string {
	if len(args) == 0 {
		return op
	}
	return "(" + op + " " + strings.Join(args, " ") + ")"
}

func intLit(n int64) string {
	if n < 0 {
		// careful with MinInt64
		b := big.NewInt(n)
		b.Neg(b)
		return "(- " + b.String() + ")"
	}
	return fmt.Sprintf("%d", n)
}

func bigLit(b *big.Int) string {
	if b.Sign() < 0 {
		c := new(big.Int).Neg(b)
		return "(- " + c.String() + ")"
	}
	return b.String()
}

func boolLit(b bool) string {
	if b {
		return "true"
	}
	return "false"
}

func and(xs ...string) string {
	var ys []string
	for _, x := range xs {
		if x == "true" || x == "" {
			continue
		}
		if x == "false" {
			return "false"
		}
		ys = append(ys, x)
	}
	switch len(ys) {
	case 0:
		return "true"
	case 1:
		return ys[0]
	}
	return app("and", ys...)
}

func or(xs ...string) string {
	var ys []string
	for _, x := range xs {
		if x == "false" || x == "" {
			continue
		}
		if x == "true" {
			return "true"
		}
		ys = append(ys, x)
	}
	switch len(ys) {
	case 0:
		return "false"
	case 1:
		return ys[0]
	}
	return app("or", ys...)
}

func not(x string) string {
	switch x {
	case "true":
		return "false"
	case "false":
		return "true"
	}
	if strings.HasPrefix(x, "(not ") && strings.HasSuffix(x, ")") {
		inner := x[5 : len(x)-1]
		if balanced(inner) {
			return inner
		}
	}
	return app("not", x)
}

func balanced(s string) bool {
	d := 0
	for i, c := range s {
		switch c {
		case '(':
			d++
		case ')':
			d--
			if d == 0 && i != len(s)-1 {
				return false
			}
			if d < 0 {
				return false
			}
		case ' ':
			if d == 0 {
				return false
			}
		}
	}
	return d == 0
}

func implies(a, b string) string {
	if a == "true" {
		return b
	}
	if a == "false" || b == "true" {
		return "true"
	}
	return app("=>", a, b)
}

func eq(a, b string) string {
	if a == b {
		return "true"
	}
	return app("=", a, b)
}

func ite(c, a, b string) string {
	if c == "true" {
		return a
	}
	if c == "false" {
		return b
	}
	if a == b {
		return a
	}
	return app("ite", c, a, b)
}

func sel(a, i string) string    { return app("select", a, i) }
func sto(a, i, v string) string { return app("store", a, i, v) }

func arrSort(k, v string) string { return "(Array " + k + " " + v + ")" }

// the constant prelude shared by every VC
const prelude = `(set-option :produce-models true)
(set-logic ALL)
(declare-sort Str 0)
(define-sort F64 () (_ FloatingPoint 11 53))
(declare-datatypes ((Pay 0)) (((pNone) (pRef (pref Int)) (pStr (pstr Str)) (pNum (pnum F64)) (pBool (pbool Bool)) (pInt (pint Int)) (pSlice (psb Int) (pso Int) (psl Int) (psc Int)) (pErr (perr Int)) (pOther (pother Int)))))
(declare-datatypes ((Iface 0)) (((nilI) (mkI (itag Int) (ipay Pay)))))
(declare-fun cat (Str Str) Str)
(declare-const emp Str)
(assert (forall ((x Str)) (! (= (cat emp x) x) :pattern ((cat emp x)))))
(assert (forall ((x Str)) (! (= (cat x emp) x) :pattern ((cat x emp)))))
(declare-fun blen (Str) Int)
(declare-fun nl (Str) Int)
(declare-fun vlen (Str) Int)
(declare-fun clean (Str) Bool)
(declare-fun wf (Str) Bool)
(declare-fun sgr (Str) Bool)
(declare-fun sgrch (Str) Bool)
(declare-fun sgrs (Str) Bool)
(declare-fun p1 (Str) Bool)
(declare-fun mxl (Str) Int)
(declare-fun fstl (Str) Int)
(declare-fun lstl (Str) Int)
(declare-fun mmin (Str) Int)
(declare-fun nel (Str) Int)
(define-fun min2 ((a Int) (b Int)) Int (ite (<= a b) a b))
(declare-fun nsc (Str) Int)
(define-fun max2 ((a Int) (b Int)) Int (ite (>= a b) a b))
(declare-fun digits (Str) Bool)
(declare-fun noNL (Str) Bool)
(declare-fun noCTL (Str) Bool)
(declare-fun errIs (Int Int) Bool)
(declare-fun errClean (Int) Bool)
(declare-fun errMsg (Int) Str)
(declare-fun urlStr (Int) Str)
(declare-fun ix (Int Int) Int)
(assert (forall ((o Int) (i Int)) (! (= (ix o i) (+ o i)) :pattern ((ix o i)))))
(define-fun validI ((x Iface)) Bool (and ((_ is mkI) x) (=> ((_ is pRef) (ipay x)) (not (= (pref (ipay x)) 0)))))
`

func litInt(t string) (int64, bool) {
	if len(t) == 0 || len(t) > 18 {
		return 0, false
	}
	var n int64
	for _, c := range t {
		if c < '0' || c > '9' {
			return 0, false
		}
		n = n*10 + int64(c-'0')
	}
	return n, true
}

// addT / subT build sums with literal folding so that statically known lengths stay literals.
func addT(a, b string) string {
	if a == "0" {
		return b
	}
	if b == "0" {
		return a
	}
	if x, ok := litInt(a); ok {
		if y, ok := litInt(b); ok {
			return intLit(x + y)
		}
	}
	return app("+", a, b)
}

func subT(a, b string) string {
	if b == "0" {
		return a
	}
	if x, ok := litInt(a); ok {
		if y, ok := litInt(b); ok {
			return intLit(x - y)
		}
	}
	return app("-", a, b)
}

// ixT: absolute index of element i of a slice with offset off. An uninterpreted symbol (defined by an axiom)
// keeps arithmetic out of quantifier triggers.
func ixT(off, i string) string {
	if off == "0" {
		return i
	}
	return app("ix", off, i)
}
