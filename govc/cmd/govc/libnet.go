package main

import (
	"fmt"
	"go/constant"
	"go/types"
	"strings"

	"golang.org/x/tools/go/ssa"
)

// Assumed contracts of the network, cache, JSON and regexp libraries used by jtp/client (DESIGN Appendix C).
// Ghost state of one activation: net_dials, net_writes (counters), net_written (request text),
// net_deadline (a deadline was set on the connection), net_addr (address dialed).

func (s *State) ghostInt(name string) string {
	if v, ok := s.ghost[name]; ok {
		return v.S
	}
	return "0"
}

func (s *State) initNetGhost() {
	s.ghost["net_dials"] = Val{T: intT, S: "0"}
	s.ghost["net_writes"] = Val{T: intT, S: "0"}
	s.ghost["net_reads"] = Val{T: intT, S: "0"}
	s.ghost["net_written"] = Val{T: strT, S: "emp"}
	s.ghost["net_deadline"] = Val{T: boolT, S: s.c.freshConst("deadline0", sBool)}
	s.ghost["net_addr"] = Val{T: strT, S: s.c.freshConst("addr0", sStr)}
}

func (s *State) errOrNil(hint string, clean bool) (Val, string) {
	errv, eid := s.newErr(hint)
	for _, t := range s.sentinelTerms() {
		s.assume(not(app("errIs", eid, t)))
	}
	if clean {
		s.assume(app("errClean", eid))
	}
	isNil := s.c.freshConst(hint+"ok", sBool)
	return Val{T: errorT, S: s.define(hint+"err", sIface, ite(isNil, "nilI", errv.S))}, isNil
}

// regexp patterns of the repository and what a match of each looks like.
type rePattern struct {
	groups int  // number of capture groups
	always bool // the pattern matches every string
}

var rePatterns = map[string]rePattern{
	"(?s)^(([!#$%&'*+\\-.^_\\x60|~a-zA-Z0-9]+)/([!#$%&'*+\\-.^_\\x60|~a-zA-Z0-9]+)).*$": {3, false},
	"^HTTP/1\\.[0-9] ([0-9]{3}).*\\n$":                                                  {1, false},
	"^(?i:content-type):[ \\t\\r]*(.*?)[ \\t\\r]*\\n$":                                  {1, false},
	"^(?i:location):[ \\t\\r]*(.*?)[ \\t\\r]*\\n$":                                      {1, false},
	"(?s)^(.*?)([ \\n]*)$":                                                              {2, true},
	"(?s)^([ \\n]*)(.*)$":                                                               {2, true},
	"^=>[ \\t]*(.*?)(?:[ \\t]+(.*))?$":                                                  {2, false},
	"^#[ \\t]+(.*)$":                                                                    {1, false},
	"^##[ \\t]+(.*)$":                                                                   {1, false},
	"^###[ \\t]+(.*)$":                                                                  {1, false},
	"^\\* (.*)$":                                                                        {1, false},
	"^> ?(.*)$":                                                                         {1, false},
}

// regexpPattern finds the constant pattern behind a *regexp.Regexp operand.
func (e *Engine) regexpPattern(v ssa.Value) (string, bool) {
	switch x := v.(type) {
	case *ssa.Call:
		if c := x.Call.StaticCallee(); c != nil && c.String() == "regexp.MustCompile" {
			return constString(x.Call.Args[0])
		}
	case *ssa.UnOp:
		if g, ok := x.X.(*ssa.Global); ok {
			if p, ok := e.reGlobals()[g]; ok {
				return p, true
			}
		}
	}
	return "", false
}

func (e *Engine) reGlobals() map[*ssa.Global]string {
	if e.reGlobalMap != nil {
		return e.reGlobalMap
	}
	e.reGlobalMap = map[*ssa.Global]string{}
	for fn := range e.allFns {
		if fn.Synthetic != "package initializer" || !e.inRepo(fn) {
			continue
		}
		for _, b := range fn.Blocks {
			for _, in := range b.Instrs {
				st, ok := in.(*ssa.Store)
				if !ok {
					continue
				}
				g, ok := st.Addr.(*ssa.Global)
				if !ok {
					continue
				}
				if call, ok := st.Val.(*ssa.Call); ok {
					if c := call.Call.StaticCallee(); c != nil && c.String() == "regexp.MustCompile" {
						if p, ok := constString(call.Call.Args[0]); ok {
							e.reGlobalMap[g] = p
						}
					}
				}
			}
		}
	}
	return e.reGlobalMap
}

func init() {
	extraLib = append(extraLib, func(e *Engine) {
		L := e.lib
		L["regexp.MustCompile"] = func(s *State, site ssa.Instruction, a []Val) []Val {
			s.used("regexp.MustCompile of a constant pattern returns a non-nil matcher")
			r := s.newRef()
			return []Val{{T: site.(ssa.CallInstruction).Common().Signature().Results().At(0).Type(), S: r}}
		}
		L["(*regexp.Regexp).FindStringSubmatch"] = func(s *State, site ssa.Instruction, a []Val) []Val {
			s.declArrPreds()
			in := a[1].S
			s.strBasics(in)
			pat, known := e.regexpPattern(callArg(site, 0))
			rp, tabled := rePatterns[pat]
			n := s.c.freshConst("nmatch", sInt)
			if known && tabled {
				s.used(fmt.Sprintf("regexp %q: FindStringSubmatch yields %d strings or none; every submatch is a substring of the input", pat, rp.groups+1))
				if rp.always {
					s.assume(eq(n, fmt.Sprint(rp.groups+1)))
				} else {
					s.assume(or(eq(n, "0"), eq(n, fmt.Sprint(rp.groups+1))))
				}
			} else {
				s.used("regexp (pattern not tabled): FindStringSubmatch yields any number of substrings of the input")
				s.assume(app("<=", "0", n))
			}
			v, inner := s.newStrSlice(n, "submatch")
			// a nil slice when there is no match
			v.Sl.Base = s.define("smb", sInt, ite(eq(n, "0"), "0", v.Sl.Base))
			s.assume(implies(app("clean", in), app("allClean", inner)))
			s.assume(implies(app("noNL", in), app("allNoNL", inner)))
			for k := 0; k <= rp.groups && known && tabled; k++ {
				el := sel(inner, fmt.Sprint(k))
				s.strBasics(el)
				s.assume(implies(app("clean", in), app("clean", el)))
				s.assume(implies(app("noNL", in), app("noNL", el)))
				s.assume(app("<=", app("blen", el), app("blen", in)))
			}
			if known && tabled {
				switch {
				case strings.HasPrefix(pat, "^HTTP/1"):
					el := sel(inner, "1")
					s.assume(implies(app(">", n, "0"), and(app("digits", el), eq(app("blen", el), "3"))))
					// named meaning of this exact pattern: the line is an HTTP/1.x status line and group 1 its code
					s.c.declare("statusCode", "(declare-fun statusCode (Str) Str)")
					s.c.declare("isStatusLine", "(declare-fun isStatusLine (Str) Bool)")
					s.assume(implies(app(">", n, "0"), and(app("isStatusLine", in), eq(el, app("statusCode", in)))))
				case pat == "^(?i:content-type):[ \\t\\r]*(.*?)[ \\t\\r]*\\n$" || pat == "^(?i:location):[ \\t\\r]*(.*?)[ \\t\\r]*\\n$":
					// named meaning of these exact patterns: the line is the header of that name (case-insensitive,
					// anchored at the start of the line) and group 1 its trimmed value
					name := "content-type"
					if strings.Contains(pat, "location") {
						name = "location"
					}
					s.c.declare("headerLine", "(declare-fun headerLine (Str Str) Bool)")
					s.c.declare("headerValue", "(declare-fun headerValue (Str) Str)")
					s.assume(implies(app(">", n, "0"), and(app("headerLine", in, s.c.lit(name)), eq(sel(inner, "1"), app("headerValue", in)))))
				case pat == "(?s)^(([!#$%&'*+\\-.^_\\x60|~a-zA-Z0-9]+)/([!#$%&'*+\\-.^_\\x60|~a-zA-Z0-9]+)).*$":
					// named meaning of this exact pattern: the text starts with an RFC 9110 media type token/token;
					// groups 1-3 are its essence, type and subtype
					for _, f := range []string{"mtEssence", "mtSuper", "mtSub"} {
						s.c.declare(f, fmt.Sprintf("(declare-fun %s (Str) Str)", f))
					}
					s.c.declare("isMediaType", "(declare-fun isMediaType (Str) Bool)")
					s.assume(eq(app(">", n, "0"), app("isMediaType", in)))
					s.assume(implies(app(">", n, "0"), and(eq(sel(inner, "1"), app("mtEssence", in)), eq(sel(inner, "2"), app("mtSuper", in)), eq(sel(inner, "3"), app("mtSub", in)))))
					for k := 1; k <= 3; k++ {
						el := sel(inner, fmt.Sprint(k))
						s.assume(implies(app(">", n, "0"), and(app("clean", el), app("noNL", el), app("noCTL", el), app(">=", app("blen", el), "1"))))
					}
				case strings.HasPrefix(pat, "(?s)^(([!#"):
					// token characters only: groups are clean whatever surrounds them
					for k := 1; k <= 3; k++ {
						el := sel(inner, fmt.Sprint(k))
						s.assume(implies(app(">", n, "0"), and(app("clean", el), app("noNL", el), app("noCTL", el), app(">=", app("blen", el), "1"))))
					}
				case pat == "(?s)^(.*?)([ \\n]*)$" || pat == "(?s)^([ \\n]*)(.*)$":
					m1, m2 := sel(inner, "1"), sel(inner, "2")
					s.assume(eq(in, app("cat", m1, m2)))
					s.catFacts(in, m1, m2)
					s.assume(implies(app("wf", in), and(app("wf", m1), app("wf", m2))))
					ws := m2
					if strings.HasPrefix(pat, "(?s)^([") {
						ws = m1
					}
					s.assume(and(app("clean", ws), eq(app("vlen", ws), app("-", app("blen", ws), app("nl", ws)))))
				}
			}
			return []Val{v}
		}
		L["(*regexp.Regexp).FindAllStringSubmatch"] = func(s *State, site ssa.Instruction, a []Val) []Val {
			pat, known := e.regexpPattern(callArg(site, 0))
			if known && pat == expandPattern {
				return []Val{s.libExpand(site, a[1])}
			}
			s.used("regexp (pattern not tabled): FindAllStringSubmatch yields an unconstrained list")
			return []Val{s.freshVal(site.(ssa.CallInstruction).Common().Signature().Results().At(0).Type(), "allmatches")}
		}
		L["(*regexp.Regexp).ReplaceAllString"] = func(s *State, site ssa.Instruction, a []Val) []Val {
			r := s.freshStr("replaced")
			if pat, ok := e.regexpPattern(callArg(site, 0)); ok && pat == "[ \\t\\n\\r]+" {
				if rep, ok := constString(callArg(site, 2)); ok && rep == " " {
					s.used("regexp [ \\t\\n\\r]+ -> \" \": the result has no newline; control characters other than \\t \\n \\r stay")
					s.assume(eq(app("nl", r.S), "0"))
					s.assume(implies(app("clean", a[1].S), app("clean", r.S)))
				}
			}
			return []Val{r}
		}

		// ---- net/url ----
		for _, m := range []string{"Hostname", "Port", "RequestURI"} {
			m := m
			L["(*net/url.URL)."+m] = func(s *State, site ssa.Instruction, a []Val) []Val {
				s.used("(*url.URL)." + m + "(): a function of the URL's fields (Hostname and Port of its Host)")
				r := s.freshStr("url" + m)
				fn := "url" + m
				switch m {
				case "Hostname", "Port":
					s.c.declare(fn, fmt.Sprintf("(declare-fun %s (Str) Str)", fn))
					host := s.urlHostField(a[0])
					s.assume(eq(r.S, app(fn, host)))
				default:
					s.c.declare(fn, fmt.Sprintf("(declare-fun %s (Int) Str)", fn))
					s.assume(eq(r.S, app(fn, a[0].S)))
					s.assume(and(app("noCTL", r.S)))
				}
				return []Val{r}
			}
		}
		L["(*net/url.URL).ResolveReference"] = func(s *State, site ssa.Instruction, a []Val) []Val {
			s.used("(*url.URL).ResolveReference(ref): requires ref != nil; a fresh non-nil URL, a function of base and reference")
			s.oblige("lib-pre:ResolveReference", site, s.c.ordinal(site, "lib-pre:ResolveReference"), not(eq(a[1].S, "0")), "(*url.URL).ResolveReference dereferences its argument: nil reference", false)
			s.assume(not(eq(a[1].S, "0")))
			u := s.allocObj(derefType(a[0].T), a[0].T)
			s.c.declare("urlResolve", "(declare-fun urlResolve (Int Int) Int)")
			s.assume(eq(app("urlResolve", a[0].S, a[1].S), u.S))
			return []Val{u}
		}
		L["net.JoinHostPort"] = func(s *State, site ssa.Instruction, a []Val) []Val {
			s.used("net.JoinHostPort(host, port): an injective function of host and port")
			s.c.declare("joinHostPort", "(declare-fun joinHostPort (Str Str) Str)")
			r := s.freshStr("hostport")
			s.assume(eq(r.S, app("joinHostPort", a[0].S, a[1].S)))
			return []Val{r}
		}

		// ---- TLS connection ----
		L["crypto/tls.DialWithDialer"] = func(s *State, site ssa.Instruction, a []Val) []Val {
			s.used("tls.DialWithDialer(dialer, network, addr, nil): on success a fresh connection to addr, authenticated with the default configuration; nothing written, no deadline set")
			sig := site.(ssa.CallInstruction).Common().Signature()
			s.oblige("lib-pre:tls.Dial", site, s.c.ordinal(site, "lib-pre:tls.Dial"), eq(a[3].S, "0"), "tls.DialWithDialer must be called with a nil *tls.Config (default certificate verification)", false)
			conn := s.newRef()
			errv, isNil := s.errOrNil("dial", false)
			c := Val{T: sig.Results().At(0).Type(), S: s.define("conn", sInt, ite(isNil, conn, "0"))}
			s.ghost["net_dials"] = Val{T: intT, S: addT(s.ghostInt("net_dials"), "1")}
			s.ghost["net_addr"] = a[2]
			s.ghost["net_network"] = a[1]
			s.ghost["net_deadline"] = Val{T: boolT, S: "false"}
			return []Val{c, errv}
		}
		L["(*crypto/tls.Conn).Write"] = func(s *State, site ssa.Instruction, a []Val) []Val {
			s.used("(*tls.Conn).Write(b): appends b to what has been sent")
			text := s.bytesText(a[1])
			w := s.ghost["net_written"]
			if w.S == "" {
				w = Val{T: strT, S: "emp"}
			}
			s.ghost["net_written"] = s.cat(w, Val{T: strT, S: text})
			s.ghost["net_writes"] = Val{T: intT, S: addT(s.ghostInt("net_writes"), "1")}
			n := s.freshVal(intT, "nwritten")
			errv, _ := s.errOrNil("write", false)
			return []Val{n, errv}
		}
		L["(*crypto/tls.Conn).Close"] = func(s *State, site ssa.Instruction, a []Val) []Val {
			errv, _ := s.errOrNil("close", false)
			return []Val{errv}
		}
		L["(*crypto/tls.Conn).SetDeadline"] = func(s *State, site ssa.Instruction, a []Val) []Val {
			s.used("(*tls.Conn).SetDeadline(t): all later reads and writes fail once t has passed (absolute deadline)")
			if dl, ok := s.ghost["net_deadline"]; ok && dl.S != "" {
				s.oblige("lib-pre:deadline-once", site, s.c.ordinal(site, "lib-pre:deadline-once"), not(dl.S), "the deadline of a connection is set once: setting it again extends it, so a trickling peer could keep a fetch alive forever", false)
			}
			s.ghost["net_deadline"] = Val{T: boolT, S: "true"}
			errv, _ := s.errOrNil("setdeadline", false)
			return []Val{errv}
		}
		L["bufio.NewReader"] = func(s *State, site ssa.Instruction, a []Val) []Val {
			r := s.newRef()
			return []Val{{T: site.(ssa.CallInstruction).Common().Signature().Results().At(0).Type(), S: r}}
		}
		L["(*bufio.Reader).ReadString"] = func(s *State, site ssa.Instruction, a []Val) []Val {
			s.used("(*bufio.Reader).ReadString('\\n'): the next line of the peer's bytes (arbitrary, not sanitised) ending in the delimiter, or an error; blocks until data, EOF or the connection's deadline")
			dl := s.ghost["net_deadline"]
			if dl.S == "" {
				dl.S = "false"
			}
			goal := dl.S
			// unless no timeout was asked for at all (configured timeout 0)
			if pk := pkgOf(site.Parent()); pk != nil {
				if g, ok := pk.Members["dialer"].(*ssa.Global); ok {
					dv := s.loadAddr(&Addr{Space: "glob", Glob: g, T: derefType(g.Type())})
					if pt := derefType(dv.T); pt != nil {
						if st, ok := pt.Underlying().(*types.Struct); ok {
							for i := 0; i < st.NumFields(); i++ {
								if st.Field(i).Name() == "Timeout" {
									to := s.pureLoad(&Addr{Space: "fld", Struct: pt, Field: i, Ref: dv.S, T: st.Field(i).Type()})
									goal = or(goal, app("<=", to.S, "0"))
								}
							}
						}
					}
				}
			}
			s.oblige("lib-pre:deadline", site, s.c.ordinal(site, "lib-pre:deadline"), goal, "reading from the network without a deadline on the connection although a timeout is configured: a silent or trickling peer blocks forever", false)
			line := s.freshStr("line")
			errv, isNil := s.errOrNil("read", false)
			s.assume(implies(isNil, and(eq(app("nl", line.S), "1"), app(">=", app("blen", line.S), "1"))))
			s.ghost["net_reads"] = Val{T: intT, S: addT(s.ghostInt("net_reads"), "1")}
			return []Val{line, errv}
		}
		L["time.Now"] = func(s *State, site ssa.Instruction, a []Val) []Val {
			return []Val{s.freshVal(site.(ssa.CallInstruction).Common().Signature().Results().At(0).Type(), "now")}
		}
		L["(time.Time).Add"] = func(s *State, site ssa.Instruction, a []Val) []Val {
			return []Val{s.freshVal(site.(ssa.CallInstruction).Common().Signature().Results().At(0).Type(), "later")}
		}

		// ---- JSON ----
		L["encoding/json.NewDecoder"] = func(s *State, site ssa.Instruction, a []Val) []Val {
			r := s.newRef()
			return []Val{{T: site.(ssa.CallInstruction).Common().Signature().Results().At(0).Type(), S: r}}
		}
		L["(*encoding/json.Decoder).Decode"] = func(s *State, site ssa.Instruction, a []Val) []Val {
			s.used("(*json.Decoder).Decode(&m) for m map[string]any: nil error only after one complete JSON object was read into a fresh non-nil map; an incomplete or non-object body is an error and leaves m nil or partial")
			errv, isNil := s.errOrNil("json", true)
			// the target: a pointer to a map cell boxed into `any`
			if mi, ok := callArg(site, 1).(*ssa.MakeInterface); ok {
				pv := s.valOf(mi.X)
				if pt := derefType(pv.T); pt != nil && kindOf(pt) == kMap {
					if ad := s.ptrAddr(pv); ad != nil {
						nm := s.newMap(pt)
						old := s.loadAddr(ad)
						part := s.freshVal(pt, "partial")
						s.storeAddr(ad, Val{T: pt, S: s.define("decoded", sInt, ite(isNil, nm.S, ite(eq(s.c.freshConst("partialp", sBool), "true"), part.S, old.S)))})
						s.ghost["json_decoded"] = nm
						if uf, ok := s.c.eng.ufuncs["servedBy"]; ok {
							if ad, ok := s.ghost["net_addr"]; ok && ad.S != "" {
								// a document read from a connection was served by the peer that connection was dialed to
								s.assume(eq(app(uf.Name, nm.S), ad.S))
							}
						}
					}
				}
			}
			return []Val{errv}
		}

		// ---- LRU cache and singleflight ----
		L["(*github.com/hashicorp/golang-lru/v2.Cache[K, V]).Get"] = func(s *State, site ssa.Instruction, a []Val) []Val {
			s.used("lru.Cache.Get(k): returns only what an earlier Add(k, v) stored (the cache invariant of the package is assumed of the result)")
			sig := site.(ssa.CallInstruction).Common().Signature()
			v := s.freshVal(sig.Results().At(0).Type(), "cached")
			ok := s.freshVal(boolT, "hit")
			if inv := s.c.eng.cacheInv(site); inv != nil {
				x := &EvalCtx{s: s, vars: map[string]Val{inv.Params[0]: a[1], inv.Params[1]: v}, pkg: pkgOf(site.Parent())}
				t := x.eval(inv.Body)
				s.c.specErrors(x, "cacheinv")
				s.assume(implies(ok.S, t.S))
			}
			return []Val{v, ok}
		}
		L["(*github.com/hashicorp/golang-lru/v2.Cache[K, V]).Add"] = func(s *State, site ssa.Instruction, a []Val) []Val {
			s.used("lru.Cache.Add(k, v): stores v under k (possibly evicting other entries); internally synchronised")
			if inv := s.c.eng.cacheInv(site); inv != nil {
				x := &EvalCtx{s: s, vars: map[string]Val{inv.Params[0]: a[1], inv.Params[1]: a[2]}, pkg: pkgOf(site.Parent())}
				for i, part := range unfoldConj(inv.Body, s.c.eng.contracts.Preds, inv.Pkg, 0) {
					t := x.eval(part)
					s.oblige("cacheinv", site, s.c.ordinal(site, "cacheinv")*10+i, t.S, "every entry put into the cache satisfies the cache invariant: "+part.String(), true)
				}
				s.c.specErrors(x, "cacheinv")
			}
			return []Val{s.freshVal(boolT, "evicted")}
		}
		L["(*golang.org/x/sync/singleflight.Group).Do"] = nil
		delete(L, "(*golang.org/x/sync/singleflight.Group).Do")
		L["(*golang.org/x/sync/singleflight.Group).Forget"] = func(s *State, site ssa.Instruction, a []Val) []Val { return nil }
	})
}

// cacheInv: the predicate `cacheinv(key, bundle)` of the package that owns the call site, if declared.
func (e *Engine) cacheInv(site ssa.Instruction) *Pred {
	p := e.contracts.Preds["cacheinv"]
	if p == nil || len(p.Params) != 2 {
		return nil
	}
	if pk := pkgOf(site.Parent()); pk == nil || pk.Pkg.Name() != p.Pkg {
		return nil
	}
	return p
}

// urlHostField reads u.Host.
func (s *State) urlHostField(u Val) string {
	pt := derefType(u.T)
	if pt == nil {
		return s.c.freshConst("host", sStr)
	}
	st, ok := pt.Underlying().(*types.Struct)
	if !ok {
		return s.c.freshConst("host", sStr)
	}
	for i := 0; i < st.NumFields(); i++ {
		if st.Field(i).Name() == "Host" {
			return s.pureLoad(&Addr{Space: "fld", Struct: pt, Field: i, Ref: u.S, T: st.Field(i).Type()}).S
		}
	}
	return s.c.freshConst("host", sStr)
}

// bytesText: the string a []byte value was converted from (ghost), or an unknown string.
func (s *State) bytesText(b Val) string {
	if b.Sl != nil {
		s.c.declare("textOfBytes", "(declare-fun textOfBytes (Int Int Int) Str)")
		return app("textOfBytes", b.Sl.Base, b.Sl.Off, b.Sl.Len)
	}
	return s.c.freshConst("bytes", sStr)
}

var _ = constant.MakeBool
