package main

import (
	"fmt"
	"go/constant"
	"go/token"
	"go/types"
	"sort"
	"strings"

	"golang.org/x/tools/go/ssa"
)

type frame struct {
	fn     *ssa.Function
	retk   func(*State, []Val)
	frees  map[*ssa.FreeVar]Val
	defers []deferredCall
	names  map[string]nameBinding
}

type havocRec struct {
	prefix string
	epoch  int
	keep   func(string) bool
}

// ---------- control flow ----------

func (s *State) runBlock(b, from *ssa.BasicBlock) {
	c := s.c
	if s.dead {
		return
	}
	c.budget--
	if c.budget < 0 {
		s.unsupported("path budget exhausted")
		return
	}
	top := len(s.fnStack) == 1
	if top {
		for h := range s.inLoop {
			if !c.loopBody[h][b] {
				delete(s.inLoop, h)
			}
		}
	}
	// phis
	var phis []*ssa.Phi
	i := 0
	for ; i < len(b.Instrs); i++ {
		p, ok := b.Instrs[i].(*ssa.Phi)
		if !ok {
			break
		}
		phis = append(phis, p)
	}
	edge := -1
	for k, p := range b.Preds {
		if p == from {
			edge = k
		}
	}
	newVals := make([]Val, len(phis))
	for k, p := range phis {
		if edge >= 0 {
			newVals[k] = s.valOf(p.Edges[edge])
			newVals[k].T = p.Type()
		}
	}
	hasRange := false
	for k, p := range phis {
		s.env[p] = newVals[k]
		if p.Comment != "" {
			s.names[p.Comment] = nameBinding{V: p, IsAddr: false}
			if p.Comment == "rangeindex" {
				hasRange = true
			}
		}
	}
	if _, isHdr := c.loopHdr[b]; isHdr && top {
		// `iter` (the number of completed iterations) in a three-clause counting loop is its counter: the one
		// header phi that starts at 0 and is incremented by 1 on every back edge. A range loop rewritten as
		// `for i := 0; i < len(xs); i++` (or back) keeps the meaning of the invariants written with `iter`.
		if hasRange {
			delete(s.names, "itercount")
		} else if cp := countingPhi(phis); cp != nil {
			s.names["itercount"] = nameBinding{V: cp, IsAddr: false}
			delete(s.names, "rangeindex")
		}
	}
	if n, isHdr := c.loopHdr[b]; isHdr && top {
		if !s.inLoop[b] {
			s.enterLoop(b, n, phis)
		} else {
			s.backEdge(b, n)
			return
		}
	} else if _, isHdr := s.c.eng.isLoopHeader(b); isHdr && !top {
		s.unsupported("loop inside inlined function " + b.Parent().Name())
		return
	}
	s.runFrom(b, i)
}

func (s *State) invCtx() *EvalCtx {
	x := &EvalCtx{s: s, old: s.c.entry, vars: s.c.paramVars(s), pkg: s.c.fn.Pkg, locals: true}
	if x.pkg == nil && s.c.fn.Parent() != nil {
		x.pkg = s.c.fn.Parent().Pkg
	}
	return x
}

func (s *State) enterLoop(b *ssa.BasicBlock, n int, phis []*ssa.Phi) {
	c := s.c
	// what a string builder / byte buffer holds is ghost state that a loop body may extend: forget it at the cut
	for k := range s.ghost {
		if strings.HasPrefix(k, "sbuilder|") || strings.HasPrefix(k, "buftext|") {
			delete(s.ghost, k)
			s.ghost["bufunknown|"+k] = Val{T: boolT, S: "true"}
		}
	}
	var invs []Clause
	var dec *Clause
	if c.con != nil {
		invs = c.con.LoopInv[n]
		if d, ok := c.con.LoopDec[n]; ok {
			dec = &d
		}
	}
	for k, inv := range invs {
		x := s.invCtx()
		v := x.eval(inv.Expr)
		c.specErrors(x, inv.Where)
		s.oblige(fmt.Sprintf("inv-entry:L%d", n), nil, k+1, v.S, inv.Src, true)
	}
	// havoc loop-carried registers and the heap locations the body may write
	for _, p := range phis {
		s.env[p] = s.freshVal(p.Type(), "phi_"+p.Comment)
	}
	keys, all := c.loopMods(b)
	if all {
		s.havocCall(fmt.Sprintf("loop %d of %s calls code with unknown effects", n, c.name), c.loopUnkPkgs, c.loopUnkFuncArg)
	} else {
		for _, k := range keys {
			s.havocPrefixFramed(k)
		}
	}
	s.inLoop[b] = true
	for gk, gv := range s.ghost {
		if strings.HasPrefix(gk, "wg|") {
			s.ghost[fmt.Sprintf("wgentry|%d|%s", n, gk)] = gv
		}
	}
	for _, inv := range invs {
		x := s.invCtx()
		v := x.eval(inv.Expr)
		s.assume(v.S)
	}
	if dec != nil {
		x := s.invCtx()
		v := x.eval(dec.Expr)
		s.ghost[fmt.Sprintf("dec|%d", n)] = Val{T: intT, S: s.define("variant", sInt, v.S)}
	}
	s.cover(fmt.Sprintf("cover:L%d", n), 0, "loop head reachable under its invariant")
}

func (s *State) backEdge(b *ssa.BasicBlock, n int) {
	c := s.c
	// WaitGroup counters are not havocked at loop heads: an iteration must leave them as it found them
	for gk, gv := range s.ghost {
		if !strings.HasPrefix(gk, "wg|") {
			continue
		}
		entry := "0"
		if ev, ok := s.ghost[fmt.Sprintf("wgentry|%d|%s", n, gk)]; ok {
			entry = ev.S
		}
		s.oblige(fmt.Sprintf("wg-balance:L%d", n), nil, 1, eq(gv.S, entry), "a loop iteration changes a WaitGroup counter (an Add without its Done on some path, or the reverse)", false)
	}
	if c.con == nil {
		return
	}
	for k, inv := range c.con.LoopInv[n] {
		x := s.invCtx()
		v := x.eval(inv.Expr)
		c.specErrors(x, inv.Where)
		s.oblige(fmt.Sprintf("inv-preserve:L%d", n), nil, k+1, v.S, inv.Src, true)
	}
	c.paths++
	for k, be := range c.con.BackEdges[n] {
		x := s.invCtx()
		v := x.eval(be.Expr)
		c.specErrors(x, be.Where)
		s.oblige(fmt.Sprintf("backedge:L%d", n), nil, k+1, v.S, be.Src, true)
	}
	if d, ok := c.con.LoopDec[n]; ok {
		x := s.invCtx()
		v := x.eval(d.Expr)
		before := s.ghost[fmt.Sprintf("dec|%d", n)]
		s.oblige(fmt.Sprintf("decreases:L%d", n), nil, 1, and(app("<=", "0", before.S), app("<", v.S, before.S)), d.Src, true)
	}
}

func (s *State) havocPrefix(prefix string) {
	for k := range s.heap {
		if strings.HasPrefix(k, prefix) {
			delete(s.heap, k)
		}
	}
	s.c.eng.epochCtr++
	s.havocs = append(append([]havocRec(nil), s.havocs...), havocRec{prefix, s.c.eng.epochCtr, nil})
}

func (s *State) runFrom(b *ssa.BasicBlock, i int) {
	for ; i < len(b.Instrs); i++ {
		if s.dead {
			return
		}
		instr := b.Instrs[i]
		switch x := instr.(type) {
		case *ssa.Call:
			next := i + 1
			s.call(x, &x.Call, func(st *State, res []Val) {
				st.bindResults(x, res)
				st.runFrom(b, next)
			})
			return
		case *ssa.Go:
			if s.joinedGo(x) {
				next := i + 1
				s.c.assumed["goroutines joined by a WaitGroup are executed at their spawn point (sound under the disjointness obligations of C08)"] = true
				s.call(x, &x.Call, func(st *State, res []Val) { st.runFrom(b, next) })
				return
			}
			s.step(instr)
		case *ssa.RunDefers:
			next := i + 1
			s.runDefers(func(st *State) { st.runFrom(b, next) })
			return
		case *ssa.If:
			cond := s.valOf(x.Cond)
			tb, fb := b.Succs[0], b.Succs[1]
			if cond.S != "false" {
				st := s.clone()
				st.assume(cond.S)
				st.pc = append(st.pc, fmt.Sprintf("b%d:T", b.Index))
				st.runBlock(tb, b)
			}
			if cond.S != "true" {
				st := s
				st.assume(not(cond.S))
				st.pc = append(st.pc, fmt.Sprintf("b%d:F", b.Index))
				st.runBlock(fb, b)
			}
			return
		case *ssa.Jump:
			s.runBlock(b.Succs[0], b)
			return
		case *ssa.Return:
			var res []Val
			for _, r := range x.Results {
				res = append(res, s.valOf(r))
			}
			fr := s.frames[len(s.frames)-1]
			s.frames = s.frames[: len(s.frames)-1 : len(s.frames)-1]
			s.fnStack = s.fnStack[:len(s.fnStack)-1]
			if len(s.frames) > 0 {
				s.frees = s.frames[len(s.frames)-1].frees
				// source-level names of the caller come back into scope
				s.names = make(map[string]nameBinding, len(fr.names))
				for k, v := range fr.names {
					s.names[k] = v
				}
			}
			fr.retk(s, res)
			return
		case *ssa.Panic:
			msg := "explicit panic"
			if mi, ok := x.X.(*ssa.MakeInterface); ok {
				if k, ok := mi.X.(*ssa.Const); ok && k.Value != nil {
					msg = "panic(" + k.Value.ExactString() + ")"
				}
			}
			s.oblige("panic", x, s.c.ordinal(x, "panic"), "false", "reachable "+msg, false)
			s.c.paths++
			return
		default:
			s.step(instr)
		}
	}
}

func (s *State) bindResults(call *ssa.Call, res []Val) {
	sig := call.Call.Signature()
	switch sig.Results().Len() {
	case 0:
		s.env[call] = Val{T: call.Type()}
	case 1:
		if len(res) == 1 {
			v := res[0]
			s.env[call] = v
		} else {
			s.env[call] = s.freshVal(call.Type(), "res")
		}
	default:
		s.env[call] = Val{T: call.Type(), Flds: res}
	}
}

func (s *State) runDefers(k func(*State)) {
	fr := &s.frames[len(s.frames)-1]
	if len(fr.defers) == 0 {
		k(s)
		return
	}
	d := fr.defers[len(fr.defers)-1]
	fr.defers = append([]deferredCall(nil), fr.defers[:len(fr.defers)-1]...)
	s.callResolved(d.site, d.call, d.fnv, d.args, func(st *State, _ []Val) { st.runDefers(k) })
}

// ---------- calls ----------

func (s *State) call(site ssa.Instruction, cc *ssa.CallCommon, k func(*State, []Val)) {
	var args []Val
	for _, a := range cc.Args {
		args = append(args, s.valOf(a))
	}
	fnv := s.valOf(cc.Value)
	if s.dead {
		return
	}
	s.callResolved(site, cc, fnv, args, k)
}

func (s *State) freshResults(sig *types.Signature, hint string) []Val {
	var res []Val
	for i := 0; i < sig.Results().Len(); i++ {
		res = append(res, s.freshVal(sig.Results().At(i).Type(), hint))
	}
	return res
}

func (s *State) callResolved(site ssa.Instruction, cc *ssa.CallCommon, fnv Val, args []Val, k func(*State, []Val)) {
	c := s.c
	eng := c.eng
	sig := cc.Signature()
	if cc.IsInvoke() {
		recv := fnv
		s.oblige("nil", site, c.ordinal(site, "nil"), not(eq(recv.S, "nilI")), "method call on nil interface: "+cc.Method.Name(), false)
		s.assume(not(eq(recv.S, "nilI")))
		if eng.ifaceInRepo(recv.T) {
			s.oblige("nil", site, c.ordinal(site, "nilptr"), app("validI", recv.S), "method call on an interface holding a nil pointer: "+cc.Method.Name(), false)
			s.assume(app("validI", recv.S))
		}
		key := eng.ifaceKey(recv.T, cc.Method.Name())
		if lm, ok := eng.lib[key]; ok {
			k(s, lm(s, site, append([]Val{recv}, args...)))
			return
		}
		if con, ok := eng.contracts.Funcs[key]; ok {
			s.applyContract(site, key, con, nil, append([]Val{recv}, args...), sig, k)
			return
		}
		s.havocCall("interface method "+key+" has no contract", eng.ifacePkgs(recv.T), hasFuncArg(args))
		k(s, s.freshResults(sig, "inv_"+cc.Method.Name()))
		return
	}
	if b, ok := cc.Value.(*ssa.Builtin); ok {
		k(s, s.builtin(site, b, args))
		return
	}
	var callee *ssa.Function
	var bindings []Val
	if fnv.Clo != nil {
		callee = fnv.Clo.Fn
		bindings = fnv.Clo.Bindings
	}
	if callee == nil {
		// a local variable that holds one function literal for its whole life (`helper := func() {...}`, captured by
		// other literals or not): the call goes to that literal
		if mc := localClosureOf(cc.Value); mc != nil {
			if v, ok := s.env[mc]; ok && v.Clo != nil {
				callee = v.Clo.Fn
				bindings = v.Clo.Bindings
			}
		}
	}
	if callee == nil {
		// call through a function value: contract attached to the struct field / parameter it was read from
		if key := eng.funcValueKey(cc.Value); key != "" {
			if con, ok := eng.contracts.Funcs[key]; ok {
				s.selfFn = fnv
				s.callSiteAssertsNamed(site, key, con.Params, args)
				s.applyContract(site, key, con, nil, args, sig, k)
				return
			}
		}
		s.havocAll("call through unknown function value at " + eng.posOf(site))
		k(s, s.freshResults(sig, "dyn"))
		return
	}
	key := eng.fnKey(callee)
	full := callee.String()
	if callee.Synthetic != "" && strings.HasPrefix(callee.Synthetic, "instance of") && callee.Origin() != nil {
		full = callee.Origin().String()
	}
	s.callSiteAsserts(site, key, callee, args)
	if full == "(*golang.org/x/sync/singleflight.Group).Do" && len(args) == 3 && args[2].Clo != nil {
		// singleflight.Do(key, fn): fn's result is handed back (a concurrent duplicate gets the same value;
		// coalescing is internal to the library)
		c.assumed["library contract assumed: singleflight.Group.Do(key, fn) returns the result of one execution of fn"] = true
		s.inline(args[2].Clo.Fn, nil, args[2].Clo.Bindings, func(st *State, res []Val) {
			shared := st.freshVal(boolT, "shared")
			k(st, append(res, shared))
		})
		return
	}
	if lm, ok := eng.lib[full]; ok {
		k(s, lm(s, site, args))
		return
	}
	if lm, ok := eng.lib[key]; ok {
		k(s, lm(s, site, args))
		return
	}
	// implicit precondition of pointer-receiver methods: receiver is non-nil
	if callee.Signature.Recv() != nil && len(args) > 0 && kindOf(args[0].T) == kPtr && eng.inRepo(callee) {
		s.nilCheck(site, args[0], "nil receiver for "+callee.Name())
	}
	if con, ok := eng.contracts.Funcs[key]; ok && !con.Inline {
		s.applyContract(site, key, con, callee, args, sig, k)
		return
	}
	if callee.Synthetic == "package initializer" {
		k(s, nil)
		return
	}
	if eng.inRepo(callee) && callee.Blocks != nil && len(s.fnStack) < 10 && !s.onStack(callee) && !eng.hasLoops(callee) {
		s.inline(callee, args, bindings, k)
		return
	}
	if eng.pureExternal(full) {
		c.assumed["no-panic, termination and purity of "+full+" assumed (result unconstrained)"] = true
		k(s, s.freshResults(sig, "ext"))
		return
	}
	s.havocCall("callee "+full+" has neither contract nor inlinable body", []*types.Package{fnPkg(callee)}, hasFuncArg(args))
	k(s, s.freshResults(sig, "hv"))
}

func (s *State) onStack(fn *ssa.Function) bool {
	for _, f := range s.fnStack {
		if f == fn {
			return true
		}
	}
	return false
}

func (s *State) inline(fn *ssa.Function, args []Val, bindings []Val, k func(*State, []Val)) {
	saved := make(map[string]nameBinding, len(s.names))
	for k, v := range s.names {
		saved[k] = v
	}
	fr := frame{fn: fn, retk: k, names: saved}
	if len(fn.FreeVars) > 0 {
		fr.frees = map[*ssa.FreeVar]Val{}
		for i, fv := range fn.FreeVars {
			if i < len(bindings) {
				fr.frees[fv] = bindings[i]
			}
		}
	}
	s.frames = append(s.frames[:len(s.frames):len(s.frames)], fr)
	s.fnStack = append(s.fnStack[:len(s.fnStack):len(s.fnStack)], fn)
	s.frees = fr.frees
	for i, p := range fn.Params {
		if i < len(args) {
			v := args[i]
			v.T = p.Type()
			s.env[p] = v
		}
	}
	s.runBlock(fn.Blocks[0], nil)
}

// applyContract: assert requires, havoc assigns, assume ensures.
func (s *State) applyContract(site ssa.Instruction, key string, con *Contract, callee *ssa.Function, args []Val, sig *types.Signature, k func(*State, []Val)) {
	c := s.c
	eng := c.eng
	vars := map[string]Val{}
	var pkg *ssa.Package
	if callee != nil {
		for i, p := range callee.Params {
			if i < len(args) {
				vars[p.Name()] = args[i]
			}
		}
		pkg = callee.Pkg
		if pkg == nil && callee.Parent() != nil {
			pkg = callee.Parent().Pkg
		}
		if pkg == nil && callee.Origin() != nil {
			pkg = callee.Origin().Pkg
		}
	} else {
		names := con.Params
		off := len(args) - len(names)
		if con.Kind == "iface" {
			vars["recv"] = args[0]
		}
		if con.Kind == "field" {
			vars["self"] = Val{T: intT, S: s.selfFn.S}
		}
		for i, n := range names {
			if off+i >= 0 && off+i < len(args) {
				vars[n] = args[off+i]
			}
		}
		pkg = eng.pkgByName[strings.SplitN(key, ".", 2)[0]]
	}
	short := key
	pkgName := ""
	if pkg != nil {
		pkgName = pkg.Pkg.Name()
	}
	for i, rq := range con.Requires {
		parts := unfoldConj(rq.Expr, eng.contracts.Preds, pkgName, 0)
		for j, part := range parts {
			x := &EvalCtx{s: s, old: nil, vars: vars, pkg: pkg}
			v := x.eval(part)
			c.specErrors(x, rq.Where)
			n := c.ordinal(site, "pre:"+short)*100 + i + 1
			if len(parts) > 1 {
				n = n*100 + j + 1
			}
			s.oblige("pre:"+short, site, n, v.S, "precondition of "+short+": "+part.String(), false)
			s.assume(v.S)
		}
	}
	old := s.clone()
	// frame
	{
		locs, all := s.evalAssigns(con, vars, pkg)
		if all {
			if c.frameOn && !c.frameAll {
				s.oblige("frame", site, c.ordinal(site, "frame")*100+99, "false", "callee "+key+" may write everything, this function's assigns clause does not allow that", false)
			}
			s.havocAll("")
		} else {
			for _, l := range locs {
				s.frameCheckLoc(site, l)
			}
			pre := s.clone()
			for _, l := range locs {
				s.havocLocPre(l, pre)
			}
		}
	}
	// allocation may have happened in the callee
	na := c.freshConst("alloc", sInt)
	s.assume(app("<=", s.alloc, na))
	s.alloc = na
	res := s.freshResults(sig, "r_"+sanitize(short))
	// vacuity probe: the state must stay satisfiable when the callee's postcondition is assumed (first paths
	// that reach each call site only)
	probe := -1
	if site != nil && len(con.Ensures) > 0 {
		if c.siteProbes == nil {
			c.siteProbes = map[ssa.Instruction]int{}
		}
		if c.siteProbes[site] < 2 {
			probe = c.ordinal(site, "reach:"+key)*10 + c.siteProbes[site]
			c.siteProbes[site]++
			s.cover("reach-pre:"+key, probe, "state before assuming the postcondition of "+key+" is satisfiable")
		}
	}
	if con.Deterministic {
		// the results are a function of the arguments (the receiver is an immutable object)
		var as []string
		for _, a := range args {
			as = append(as, flatten(a)...)
		}
		for i, r := range res {
			cs := comps(r.T)
			for j, t := range flatten(r) {
				if j < len(cs) {
					s.assume(eq(t, app(eng.detFn(key, i, j, args, cs[j].Sort), as...)))
				}
			}
		}
		c.assumed["results of "+key+" are a function of its receiver and arguments (receivers are immutable objects)"] = true
	}
	bindResultVars(vars, res, callee, sig)
	// the activation ghosts (exec_*, net_*: what THIS activation executed, dialed, wrote) mentioned in the callee's
	// postcondition speak about the callee's activation: they are evaluated on fresh values, and the caller's own
	// ghosts are untouched by the call
	savedGhost := map[string]Val{}
	mentions := func(prefix string) bool {
		for _, en := range con.Ensures {
			if strings.Contains(en.Src, prefix) {
				return true
			}
		}
		return false
	}
	mExec, mNet := mentions("exec_"), mentions("net_")
	for gk, gv := range s.ghost {
		if (mExec && strings.HasPrefix(gk, "exec_")) || (mNet && strings.HasPrefix(gk, "net_")) {
			savedGhost[gk] = gv
		}
	}
	for gk, gv := range savedGhost {
		if gv.T != nil {
			s.ghost[gk] = s.freshVal(gv.T, "callee_"+gk)
		}
	}
	restoreGhost := func() {
		for gk, gv := range savedGhost {
			s.ghost[gk] = gv
		}
	}
	// remember the results of the latest call of each contracted callee (spec: called(key), lastresult(key, i))
	for i, r := range res {
		s.ghost[fmt.Sprintf("lastres|%s|%d", key, i)] = r
	}
	s.ghost["lastres|"+key] = Val{T: boolT, S: "true"}
	for _, en := range con.Ensures {
		x := &EvalCtx{s: s, old: old, vars: vars, pkg: pkg, lenient: true}
		v := x.eval(en.Expr)
		if x.skip {
			continue
		}
		c.specErrors(x, en.Where)
		c.clauseErr = ""
		s.assume(v.S)
	}
	if con.Defines != "" && len(res) == 1 {
		if uf, ok := eng.ufuncs[con.Defines]; ok {
			var as []string
			for _, a := range args {
				as = append(as, flatten(a)...)
			}
			s.assume(eq(res[0].S, app(uf.Name, as...)))
			c.assumed[fmt.Sprintf("%s(x) denotes the result of %s (pure and deterministic: reads no heap or globals)", con.Defines, key)] = true
		}
	}
	if con.Trusted != "" {
		c.assumed["trusted contract of "+key+": "+con.Trusted] = true
	}
	c.used[key] = true
	restoreGhost()
	if probe >= 0 {
		s.cover("reach-post:"+key, probe, "state after assuming the postcondition of "+key+" is satisfiable")
	}
	k(s, res)
}

func bindResultVars(vars map[string]Val, res []Val, callee *ssa.Function, sig *types.Signature) {
	if len(res) == 1 {
		vars["result"] = res[0]
	}
	for i, r := range res {
		vars[fmt.Sprintf("result%d", i)] = r
	}
	for i := 0; i < sig.Results().Len() && i < len(res); i++ {
		if n := sig.Results().At(i).Name(); n != "" && n != "_" {
			if _, clash := vars[n]; !clash {
				vars[n] = res[i]
			}
		}
	}
}

// ---------- frames ----------

type frameLoc struct {
	outer  *Val   // nested: the outer slice whose elements' field slices are meant
	fpath  int    // nested: field index inside the outer element struct
	kind   string // "fld", "elems", "map", "cell", "glob"
	prefix string // heap key prefix
	ref    string // object / backing array / map ref
	desc   string
	T      types.Type
	Struct types.Type
	Field  int
}

func (s *State) evalAssigns(con *Contract, vars map[string]Val, pkg *ssa.Package) ([]frameLoc, bool) {
	var locs []frameLoc
	for _, e := range con.Assigns {
		if id, ok := e.(*EIdent); ok && id.Name == "everything" {
			return nil, true
		}
		x := &EvalCtx{s: s, vars: vars, pkg: pkg}
		switch n := e.(type) {
		case *ECall:
			if n.Fn == "allocset" && len(n.Args) == 1 {
				if id, ok := n.Args[0].(*EIdent); ok {
					t, _ := x.specTypeAny(id.Name)
					if t != nil {
						locs = append(locs, frameLoc{kind: "allocset", prefix: "allocset|" + typeKey(t), desc: e.String(), T: t})
						continue
					}
				}
				if sel, ok := n.Args[0].(*ESelect); ok {
					if id, ok := sel.X.(*EIdent); ok {
						t, _ := x.specTypeAny(id.Name + "." + sel.F)
						if t != nil {
							locs = append(locs, frameLoc{kind: "allocset", prefix: "allocset|" + typeKey(t), desc: e.String(), T: t})
							continue
						}
					}
				}
				s.c.specErr(con.Where, "assigns %s: unknown type", e)
				continue
			}
			if n.Fn == "allelems" && len(n.Args) == 1 {
				if ts, ok := n.Args[0].(*EStr); ok {
					t, _ := x.specTypeAny(ts.V)
					if t != nil {
						locs = append(locs, frameLoc{kind: "elemtype", prefix: "elem|" + typeKey(t), desc: e.String(), T: t})
						continue
					}
				}
			}
			if n.Fn == "alloftype" && len(n.Args) == 1 {
				if ts, ok := n.Args[0].(*EStr); ok {
					t, _ := x.specTypeAny(ts.V)
					if t != nil {
						locs = append(locs, frameLoc{kind: "type", prefix: "fld|" + typeKey(t) + "|", desc: e.String(), T: t})
						continue
					}
				}
			}
			s.c.specErr(con.Where, "assigns %s: not understood", e)
		case *EStar:
			if sel, ok := n.X.(*ESelect); ok {
				if in, ok := sel.X.(*EStar); ok {
					ov := x.eval(in.X)
					if kindOf(ov.T) == kSlice {
						if st, ok := ov.T.Underlying().(*types.Slice).Elem().Underlying().(*types.Struct); ok {
							for i := 0; i < st.NumFields(); i++ {
								if st.Field(i).Name() == sel.F {
									if fs, ok := st.Field(i).Type().Underlying().(*types.Slice); ok {
										o := ov
										locs = append(locs, frameLoc{kind: "nested", prefix: "elem|" + typeKey(fs.Elem()), desc: e.String(), T: fs.Elem(), outer: &o, fpath: i})
									}
								}
							}
							continue
						}
					}
					s.c.specErr(con.Where, "assigns %s: not understood", e)
					continue
				}
			}
			v := x.eval(n.X)
			switch kindOf(v.T) {
			case kSlice:
				et := v.T.Underlying().(*types.Slice).Elem()
				locs = append(locs, frameLoc{kind: "elems", prefix: "elem|" + typeKey(et), ref: v.Sl.Base, desc: e.String(), T: et})
			case kMap:
				locs = append(locs, frameLoc{kind: "map", prefix: "map", ref: v.S, desc: e.String(), T: v.T})
			default:
				s.c.specErr(con.Where, "assigns %s: not a slice or map", e)
			}
		case *ESelect:
			base := x.eval(n.X)
			pt := derefType(base.T)
			if pt == nil {
				s.c.specErr(con.Where, "assigns %s: base is not a pointer", e)
				continue
			}
			st, ok := pt.Underlying().(*types.Struct)
			if !ok {
				continue
			}
			found := false
			for i := 0; i < st.NumFields(); i++ {
				if st.Field(i).Name() == n.F {
					locs = append(locs, frameLoc{kind: "fld", prefix: s.fldKey(pt, i, ""), ref: base.S, desc: e.String(), T: st.Field(i).Type(), Struct: pt, Field: i})
					found = true
				}
			}
			if !found {
				s.c.specErr(con.Where, "assigns %s: no such field", e)
			}
		case *EUnary:
			if n.Op == "*" {
				v := x.eval(n.X)
				pt := derefType(v.T)
				if pt != nil {
					if stt, ok := pt.Underlying().(*types.Struct); ok {
						for i := 0; i < stt.NumFields(); i++ {
							locs = append(locs, frameLoc{kind: "fld", prefix: s.fldKey(pt, i, ""), ref: v.S, desc: e.String(), T: stt.Field(i).Type(), Struct: pt, Field: i})
						}
					} else {
						locs = append(locs, frameLoc{kind: "cell", prefix: "cell|" + typeKey(pt), ref: v.S, desc: e.String(), T: pt})
					}
				}
			}
		case *EIdent:
			// a package-level variable
			if pkg != nil {
				if g, ok := pkg.Members[n.Name].(*ssa.Global); ok {
					locs = append(locs, frameLoc{kind: "glob", prefix: "glob|" + g.Pkg.Pkg.Name() + "." + g.Name(), desc: e.String(), T: derefType(g.Type())})
					continue
				}
			}
			s.c.specErr(con.Where, "assigns %s: not understood", e)
		default:
			s.c.specErr(con.Where, "assigns %s: not understood", e)
		}
		s.c.specErrors(x, con.Where)
	}
	return locs, false
}

// nestedBase: base of outer[j].field, read in state st.
func (l frameLoc) nestedBase(st *State, j string) string {
	et := l.outer.T.Underlying().(*types.Slice).Elem()
	ft := et.Underlying().(*types.Struct).Field(l.fpath).Type()
	v := st.pureLoad(&Addr{Space: "elem", Ref: l.outer.Sl.Base, Idx: ixT(l.outer.Sl.Off, j), Elem: et, Path: []int{l.fpath}, T: ft})
	return v.Sl.Base
}

func (l frameLoc) nestedMember(st *State, ref string) string {
	j := fmt.Sprintf("j!n%d", st.c.fresh)
	st.c.fresh++
	return fmt.Sprintf("(exists ((%s Int)) (and (<= 0 %s) (< %s %s) (= %s %s)))", j, j, j, l.outer.Sl.Len, ref, l.nestedBase(st, j))
}

func (s *State) havocLoc(l frameLoc) { s.havocLocPre(l, s.clone()) }

func (s *State) havocLocPre(l frameLoc, pre *State) {
	c := s.c
	switch l.kind {
	case "nested":
		for _, cp := range comps(l.T) {
			key := elemKey(l.T, nil, cp.Suffix)
			srt := arrSort(sInt, arrSort(sInt, cp.Sort))
			old := s.heapGet(key, srt)
			nr := c.freshConst("hvn", srt)
			s.heap[key] = nr
			b := fmt.Sprintf("b!%d", c.fresh)
			c.fresh++
			s.assume(fmt.Sprintf("(forall ((%s Int)) (! (=> (not %s) (= (select %s %s) (select %s %s))) :pattern ((select %s %s))))", b, l.nestedMember(pre, b), nr, b, old, b, nr, b))
		}
	case "type", "elemtype", "allocset":
		s.havocPrefix(l.prefix)
	case "fld":
		if k := kindOf(l.T); k == kStruct || k == kArray {
			return
		}
		for _, cp := range comps(l.T) {
			key := l.prefix + cp.Suffix
			srt := arrSort(sInt, cp.Sort)
			fv := c.freshConst("hv", cp.Sort)
			s.refFacts(cp, fv)
			s.heapSet(key, srt, sto(s.heapGet(key, srt), l.ref, fv))
		}
	case "elems":
		s.havocElems(l.T, nil, l.ref)
	case "map":
		m := l.T.Underlying().(*types.Map)
		ks, cs := mapSorts(m)
		dkey := "mapdom|" + typeKey(l.T.Underlying())
		dsrt := arrSort(sInt, arrSort(ks, sBool))
		s.heapSet(dkey, dsrt, sto(s.heapGet(dkey, dsrt), l.ref, c.freshConst("hvd", arrSort(ks, sBool))))
		for _, cp := range cs {
			key := "mapval|" + typeKey(l.T.Underlying()) + cp.Suffix
			srt := arrSort(sInt, arrSort(ks, cp.Sort))
			s.heapSet(key, srt, sto(s.heapGet(key, srt), l.ref, c.freshConst("hvm", arrSort(ks, cp.Sort))))
		}
	case "cell":
		for _, cp := range comps(l.T) {
			key := l.prefix + cp.Suffix
			srt := arrSort(sInt, cp.Sort)
			s.heapSet(key, srt, sto(s.heapGet(key, srt), l.ref, c.freshConst("hv", cp.Sort)))
		}
	case "glob":
		for _, cp := range comps(l.T) {
			s.heap[l.prefix+cp.Suffix] = c.freshConst("hvg", cp.Sort)
		}
	}
}

func (s *State) havocElems(et types.Type, path []int, base string) {
	t := pathType(et, path)
	if kindOf(t) == kStruct {
		st := t.Underlying().(*types.Struct)
		for i := 0; i < st.NumFields(); i++ {
			s.havocElems(et, append(append([]int(nil), path...), i), base)
		}
		return
	}
	for _, cp := range comps(t) {
		key := elemKey(et, path, cp.Suffix)
		srt := arrSort(sInt, arrSort(sInt, cp.Sort))
		s.heapSet(key, srt, sto(s.heapGet(key, srt), base, s.c.freshConst("hve", arrSort(sInt, cp.Sort))))
	}
}

// frame of the function under verification, evaluated once at entry
func (c *FnCtx) frameGoal(s *State, kind string, keyPrefix string, ref string) string {
	if !c.frameOn {
		return "true"
	}
	alts := []string{app(">=", ref, c.entry.alloc)}
	for _, l := range c.frame {
		switch {
		case l.kind == "nested" && kind == "elems" && keyPrefix == l.prefix:
			alts = append(alts, l.nestedMember(c.entry, ref))
		case l.kind == "type" && kind == "fld" && strings.HasPrefix(keyPrefix, l.prefix):
			return "true"
		case l.kind == "elemtype" && kind == "elems" && keyPrefix == l.prefix:
			return "true"
		case kind == "fld" && l.kind == "fld" && l.prefix == keyPrefix:
			alts = append(alts, eq(ref, l.ref))
		case kind == "elems" && l.kind == "elems" && l.prefix == keyPrefix:
			alts = append(alts, eq(ref, l.ref))
		case kind == "map" && l.kind == "map":
			alts = append(alts, eq(ref, l.ref))
		case kind == "cell" && l.kind == "cell" && l.prefix == keyPrefix:
			alts = append(alts, eq(ref, l.ref))
		}
	}
	return or(alts...)
}

func (s *State) frameCheck(instr ssa.Instruction, a *Addr) {
	c := s.c
	if !c.frameOn || c.frameAll {
		return
	}
	var goal string
	switch a.Space {
	case "fld":
		goal = c.frameGoal(s, "fld", s.fldKey(a.Struct, a.Field, ""), a.Ref)
	case "elem":
		goal = c.frameGoal(s, "elems", "elem|"+typeKey(a.Elem), a.Ref)
	case "cell":
		goal = c.frameGoal(s, "cell", "cell|"+typeKey(a.T), a.Ref)
	case "glob":
		goal = "false"
		for _, l := range c.frame {
			if l.kind == "glob" && l.prefix == "glob|"+a.Glob.Pkg.Pkg.Name()+"."+a.Glob.Name() {
				goal = "true"
			}
		}
	default:
		return
	}
	s.oblige("frame", instr, c.ordinal(instr, "frame"), goal, "write outside the assigns clause", false)
}

func (s *State) frameCheckMap(instr ssa.Instruction, m Val) {
	c := s.c
	if !c.frameOn || c.frameAll {
		return
	}
	s.oblige("frame", instr, c.ordinal(instr, "frame"), c.frameGoal(s, "map", "", m.S), "map write outside the assigns clause", false)
}

func (s *State) frameCheckLoc(site ssa.Instruction, l frameLoc) {
	c := s.c
	if !c.frameOn || c.frameAll {
		return
	}
	var goal string
	switch l.kind {
	case "nested":
		// every array of the callee's set must be writable here: fresh in this activation, or in an own nested set
		j := fmt.Sprintf("j!m%d", c.fresh)
		c.fresh++
		b := l.nestedBase(s, j)
		own := []string{app(">=", b, c.entry.alloc), eq(b, "0")}
		for _, f := range c.frame {
			if f.kind == "nested" && f.prefix == l.prefix {
				own = append(own, f.nestedMember(c.entry, b))
			}
			if f.kind == "elemtype" && f.prefix == l.prefix {
				own = append(own, "true")
			}
		}
		goal = fmt.Sprintf("(forall ((%s Int)) (=> (and (<= 0 %s) (< %s %s)) %s))", j, j, j, l.outer.Sl.Len, or(own...))
	case "allocset":
		goal = "true" // ghost state: no frame obligation in the caller (its own declaration is checked at its returns)
	case "glob", "type", "elemtype":
		goal = "false"
		for _, f := range c.frame {
			if f.kind == l.kind && f.prefix == l.prefix {
				goal = "true"
			}
		}
	default:
		goal = c.frameGoal(s, l.kind, l.prefix, l.ref)
	}
	s.oblige("frame", site, c.ordinal(site, "frame")*100+len(l.desc)%97, goal, "callee writes "+l.desc+" outside this function's assigns clause", false)
}

// ---------- loop modification sets ----------

func (c *FnCtx) loopMods(h *ssa.BasicBlock) ([]string, bool) {
	set := map[string]bool{}
	all := false
	c.loopUnkPkgs = nil
	c.loopUnkFuncArg = false
	c.loopCellAllocs = map[string][]*ssa.Alloc{}
	c.loopCellGeneric = map[string]bool{}
	topLevelScan := true
	unk := func(pkgs []*types.Package, cc *ssa.CallCommon) {
		all = true
		c.loopUnkPkgs = append(c.loopUnkPkgs, pkgs...)
		if cc != nil {
			for _, a := range cc.Args {
				if kindOf(a.Type()) == kFunc {
					c.loopUnkFuncArg = true
				}
			}
		}
	}
	seen := map[*ssa.Function]bool{}
	var scanFn func(fn *ssa.Function)
	var scanInstr func(in ssa.Instruction)
	addrKeys := func(v ssa.Value) {
		switch a := v.(type) {
		case *ssa.FieldAddr:
			pt := derefType(a.X.Type())
			if pt != nil {
				st := pt.Underlying().(*types.Struct)
				if ia, ok := a.X.(*ssa.IndexAddr); ok {
					_ = ia
					set["elem|"+typeKey(pt)+"."+st.Field(a.Field).Name()] = true
					return
				}
				set["fld|"+typeKey(pt)+"|"+st.Field(a.Field).Name()] = true
				// element-of-slice struct case also lands here when the base is an IndexAddr
				set["elem|"+typeKey(pt)] = true
			}
		case *ssa.IndexAddr:
			var et types.Type
			switch u := a.X.Type().Underlying().(type) {
			case *types.Slice:
				et = u.Elem()
			case *types.Pointer:
				et = u.Elem().Underlying().(*types.Array).Elem()
			}
			if et != nil {
				set["elem|"+typeKey(et)] = true
			}
		case *ssa.Global:
			set["glob|"+a.Pkg.Pkg.Name()+"."+a.Name()] = true
		default:
			pt := derefType(v.Type())
			if pt == nil {
				all = true
				return
			}
			if st, ok := pt.Underlying().(*types.Struct); ok {
				for i := 0; i < st.NumFields(); i++ {
					set["fld|"+typeKey(pt)+"|"+st.Field(i).Name()] = true
				}
			} else {
				set["cell|"+typeKey(pt)] = true
			}
		}
	}
	scanInstr = func(in ssa.Instruction) {
		switch x := in.(type) {
		case *ssa.Store:
			if al, ok := x.Addr.(*ssa.Alloc); ok && topLevelScan {
				if pt := derefType(al.Type()); pt != nil && kindOf(pt) != kStruct && kindOf(pt) != kArray {
					key := "cell|" + typeKey(pt)
					c.loopCellAllocs[key] = append(c.loopCellAllocs[key], al)
					set[key] = true
					return
				}
			}
			if pt := derefType(x.Addr.Type()); pt != nil && kindOf(pt) != kStruct && kindOf(pt) != kArray {
				if _, isFA := x.Addr.(*ssa.FieldAddr); !isFA {
					if _, isIA := x.Addr.(*ssa.IndexAddr); !isIA {
						c.loopCellGeneric["cell|"+typeKey(pt)] = true
					}
				}
			}
			addrKeys(x.Addr)
		case *ssa.MapUpdate:
			set["mapdom|"+typeKey(x.Map.Type().Underlying())] = true
			set["mapval|"+typeKey(x.Map.Type().Underlying())] = true
		case *ssa.Go:
			if c.eng.hasWait[x.Parent()] {
				if mc, ok := x.Call.Value.(*ssa.MakeClosure); ok {
					scanFn(mc.Fn.(*ssa.Function))
				} else {
					all = true
				}
			}
		case *ssa.Defer:
			all = true
		case ssa.CallInstruction:
			cc := x.Common()
			if b, ok := cc.Value.(*ssa.Builtin); ok {
				switch b.Name() {
				case "append", "copy":
					if sl, ok := cc.Args[0].Type().Underlying().(*types.Slice); ok {
						set["elem|"+typeKey(sl.Elem())] = true
					}
				case "delete":
					set["mapdom|"+typeKey(cc.Args[0].Type().Underlying())] = true
				}
				return
			}
			if cc.IsInvoke() {
				key := c.eng.ifaceKey(cc.Value.Type(), cc.Method.Name())
				if _, ok := c.eng.lib[key]; ok {
					return
				}
				if con, ok := c.eng.contracts.Funcs[key]; ok {
					for _, a := range con.Assigns {
						ks, al := c.assignKeys(a, nil)
						if al {
							unk(c.eng.ifacePkgs(cc.Value.Type()), cc)
						}
						for _, k := range ks {
							set[k] = true
						}
					}
					return
				}
				unk(c.eng.ifacePkgs(cc.Value.Type()), cc)
				return
			}
			callee := cc.StaticCallee()
			if callee == nil {
				if mc := localClosureOf(cc.Value); mc != nil {
					scanFn(mc.Fn.(*ssa.Function))
					return
				}
				if key := c.eng.funcValueKey(cc.Value); key != "" {
					if con, ok := c.eng.contracts.Funcs[key]; ok && len(con.Assigns) == 0 {
						return
					}
				}
				all = true
				return
			}
			full := callee.String()
			if callee.Origin() != nil {
				full = callee.Origin().String()
			}
			if _, ok := c.eng.lib[full]; ok {
				if eff, ok := c.eng.libEffects[full]; ok {
					for _, k := range eff {
						set[k] = true
					}
				}
				return
			}
			key := c.eng.fnKey(callee)
			if _, ok := c.eng.lib[key]; ok {
				return
			}
			if con, ok := c.eng.contracts.Funcs[key]; ok && !con.Inline {
				for _, a := range con.Assigns {
					ks, al := c.assignKeys(a, callee)
					if al {
						all = true
					}
					for _, k := range ks {
						set[k] = true
					}
				}
				return
			}
			if c.eng.inRepo(callee) && callee.Blocks != nil && !c.eng.hasLoops(callee) {
				scanFn(callee)
				return
			}
			if c.eng.pureExternal(full) {
				return
			}
			unk([]*types.Package{fnPkg(callee)}, cc)
		}
	}
	scanFn = func(fn *ssa.Function) {
		if seen[fn] {
			return
		}
		seen[fn] = true
		saved := topLevelScan
		topLevelScan = false
		for _, b := range fn.Blocks {
			for _, in := range b.Instrs {
				scanInstr(in)
			}
		}
		topLevelScan = saved
	}
	for b := range c.loopBody[h] {
		for _, in := range b.Instrs {
			scanInstr(in)
		}
	}
	var keys []string
	for k := range set {
		keys = append(keys, k)
	}
	sort.Strings(keys)
	return keys, all
}

// assignKeys: heap key prefixes a callee's assigns entry may touch (syntactic, type-based).
func (c *FnCtx) assignKeys(e Expr, callee *ssa.Function) ([]string, bool) {
	if call, ok := e.(*ECall); ok && call.Fn == "allocset" {
		return []string{"allocset|"}, false
	}
	if call, ok := e.(*ECall); ok && (call.Fn == "alloftype" || call.Fn == "allelems") && len(call.Args) == 1 {
		if ts, ok := call.Args[0].(*EStr); ok {
			x := &EvalCtx{s: c.entry}
			if callee != nil {
				x.pkg = pkgOf(callee)
			}
			if t, _ := x.specTypeAny(ts.V); t != nil {
				if call.Fn == "allelems" {
					return []string{"elem|" + typeKey(t)}, false
				}
				return []string{"fld|" + typeKey(t) + "|"}, false
			}
		}
		return nil, true
	}
	if id, ok := e.(*EIdent); ok {
		if id.Name == "everything" {
			return nil, true
		}
		if callee != nil && callee.Pkg != nil {
			if g, ok := callee.Pkg.Members[id.Name].(*ssa.Global); ok {
				return []string{"glob|" + g.Pkg.Pkg.Name() + "." + g.Name()}, false
			}
		}
		return nil, true
	}
	if callee == nil {
		return nil, true
	}
	t := c.eng.specStaticType(e, callee)
	if t == nil {
		return nil, true
	}
	switch n := e.(type) {
	case *EStar:
		switch u := t.Underlying().(type) {
		case *types.Slice:
			return []string{"elem|" + typeKey(u.Elem())}, false
		case *types.Map:
			return []string{"mapdom|" + typeKey(u), "mapval|" + typeKey(u)}, false
		}
	case *ESelect:
		bt := c.eng.specStaticType(n.X, callee)
		if bt != nil {
			if pt := derefType(bt); pt != nil {
				return []string{"fld|" + typeKey(pt) + "|" + n.F}, false
			}
		}
	case *EUnary:
		if n.Op == "*" {
			// t is the type of the pointee
			if st, ok := t.Underlying().(*types.Struct); ok {
				_ = st
				return []string{"fld|" + typeKey(t) + "|"}, false
			}
			return []string{"cell|" + typeKey(t)}, false
		}
	}
	return nil, true
}

func hasFuncArg(args []Val) bool {
	for _, a := range args {
		if kindOf(a.T) == kFunc {
			return true
		}
	}
	return false
}

func fnPkg(fn *ssa.Function) *types.Package {
	if p := pkgOf(fn); p != nil {
		return p.Pkg
	}
	if fn.Object() != nil {
		return fn.Object().Pkg()
	}
	return nil
}

// havocPrefixFramed forgets the heap arrays a loop body may write, but keeps -- justified by the frame# obligations
// of this function -- the contents of every object that existed at function entry and is not in the assigns clause.
func (s *State) havocPrefixFramed(prefix string) {
	c := s.c
	type kv struct{ key, old string }
	var touched []kv
	for k, t := range s.heap {
		if strings.HasPrefix(k, prefix) {
			touched = append(touched, kv{k, t})
		}
	}
	sort.Slice(touched, func(i, j int) bool { return touched[i].key < touched[j].key })
	s.havocPrefix(prefix)
	if !c.frameOn || c.frameAll {
		return
	}
	for _, t := range touched {
		srt := c.sortOfTerm(t.old)
		if srt == "" {
			continue
		}
		if strings.HasPrefix(t.key, "cell|") {
			kp := t.key
			if i := strings.IndexAny(t.key[5:], "."); i >= 0 {
				kp = t.key[:5+i]
			}
			if allocs, ok := c.loopCellAllocs[kp]; ok && !c.loopCellGeneric[kp] {
				// every store of the loop to a cell of this type goes through one of these allocations:
				// all other cells that exist at loop entry keep their value
				nr := c.freshConst("hf", srt)
				s.heap[t.key] = nr
				r := fmt.Sprintf("r!%d", c.fresh)
				c.fresh++
				var excl []string
				for _, al := range allocs {
					if v, ok := s.env[al]; ok && v.S != "" {
						excl = append(excl, eq(r, v.S))
					}
				}
				cond := and(app("<", r, s.alloc), not(or(excl...)))
				s.assume(fmt.Sprintf("(forall ((%s Int)) (! (=> %s (= (select %s %s) (select %s %s))) :pattern ((select %s %s))))", r, cond, nr, r, t.old, r, nr, r))
				continue
			}
		}
		var kind, kp string
		switch {
		case strings.HasPrefix(t.key, "fld|"):
			kind, kp = "fld", fldPrefixOf(t.key)
		case strings.HasPrefix(t.key, "elem|"):
			kind = "elems"
			kp = t.key
			if i := strings.IndexAny(t.key[5:], "."); i >= 0 {
				kp = t.key[:5+i]
			}
		case strings.HasPrefix(t.key, "cell|"):
			kind = "cell"
			kp = t.key
			if i := strings.IndexAny(t.key[5:], "."); i >= 0 {
				kp = t.key[:5+i]
			}
		case strings.HasPrefix(t.key, "mapdom|"), strings.HasPrefix(t.key, "mapval|"):
			kind = "map"
		default:
			continue
		}
		nr := c.freshConst("hf", srt)
		s.heap[t.key] = nr
		r := fmt.Sprintf("r!%d", c.fresh)
		c.fresh++
		inFrame := []string{}
		for _, l := range c.frame {
			switch {
			case kind == "fld" && l.kind == "fld" && l.prefix == kp,
				kind == "elems" && l.kind == "elems" && l.prefix == kp,
				kind == "cell" && l.kind == "cell" && l.prefix == kp,
				kind == "map" && l.kind == "map":
				inFrame = append(inFrame, eq(r, l.ref))
			}
		}
		for _, l := range c.frame {
			if l.kind == "nested" && kind == "elems" && l.prefix == kp {
				inFrame = append(inFrame, l.nestedMember(c.entry, r))
			}
			if l.kind == "elemtype" && kind == "elems" && l.prefix == kp {
				inFrame = append(inFrame, "true")
			}
			if l.kind == "type" && kind == "fld" && strings.HasPrefix(kp, l.prefix) {
				inFrame = append(inFrame, "true")
			}
		}
		cond := and(app("<", r, c.entry.alloc), not(or(inFrame...)))
		s.assume(fmt.Sprintf("(forall ((%s Int)) (! (=> %s (= (select %s %s) (select %s %s))) :pattern ((select %s %s))))", r, cond, nr, r, t.old, r, nr, r))
	}
}

// sortOfTerm finds the declared sort of a heap array term (a root constant or a define-fun name).
func (c *FnCtx) sortOfTerm(name string) string {
	if s, ok := c.sorts[name]; ok {
		return s
	}
	return ""
}

// callSiteAsserts discharges the `callsite` clauses of the function under verification for this call.
func (s *State) callSiteAsserts(site ssa.Instruction, key string, callee *ssa.Function, args []Val) {
	var names []string
	for _, p := range callee.Params {
		names = append(names, p.Name())
	}
	if len(names) == 0 {
		// external function: parameter names come from its signature
		sig := callee.Signature
		if r := sig.Recv(); r != nil {
			names = append(names, r.Name())
		}
		for i := 0; i < sig.Params().Len(); i++ {
			names = append(names, sig.Params().At(i).Name())
		}
	}
	s.callSiteAssertsNamed(site, key, names, args)
}

func (s *State) callSiteAssertsNamed(site ssa.Instruction, key string, names []string, args []Val) {
	c := s.c
	if c.con == nil {
		return
	}
	// the call must be in the function itself, in a closure nested in it, or in a helper without a contract of its
	// own that is inlined here (code moved out of the function stays under the function's call-site clauses)
	for _, f := range s.fnStack {
		if topFn(f) != topFn(c.fn) {
			if c.eng.contracts.Funcs[c.eng.fnKey(topFn(f))] != nil {
				return
			}
		}
	}
	for i, ca := range c.con.CallSites {
		if ca.Callee != key {
			continue
		}
		x := s.invCtx()
		for name, v := range c.paramVars(s) {
			x.vars["$"+name] = v
		}
		off := len(args) - len(names)
		x.shadow = map[string]bool{}
		for j, n := range names {
			if off+j >= 0 && off+j < len(args) {
				x.vars[n] = args[off+j]
				x.shadow[n] = true
			}
		}
		v := x.eval(ca.Clause.Expr)
		c.specErrors(x, ca.Clause.Where)
		// named by clause (all call sites of the callee aggregate under one name)
		s.oblige(fmt.Sprintf("callsite:%s", key), site, i+1, v.S, "at every call of "+key+": "+ca.Clause.Src, true)
	}
}

// countingPhi returns the unique integer phi of a loop header with one incoming constant 0 and every other
// incoming value equal to phi+1, or nil.
func countingPhi(phis []*ssa.Phi) *ssa.Phi {
	var found *ssa.Phi
	for _, p := range phis {
		if kindOf(p.Type()) != kInt {
			continue
		}
		zero, inc, other := 0, 0, 0
		for _, e := range p.Edges {
			if c, ok := e.(*ssa.Const); ok && c.Value != nil && c.Value.Kind() == constant.Int {
				if v, exact := constant.Int64Val(c.Value); exact && v == 0 {
					zero++
					continue
				}
			}
			if bo, ok := e.(*ssa.BinOp); ok && bo.Op == token.ADD && bo.X == ssa.Value(p) {
				if c, ok := bo.Y.(*ssa.Const); ok && c.Value != nil && c.Value.Kind() == constant.Int {
					if v, exact := constant.Int64Val(c.Value); exact && v == 1 {
						inc++
						continue
					}
				}
			}
			other++
		}
		if zero == 1 && inc >= 1 && other == 0 {
			if found != nil {
				return nil
			}
			found = p
		}
	}
	return found
}

// allocOf resolves an address operand to the local variable (Alloc) it denotes, following captured variables
// (FreeVar) to the MakeClosure that binds them; nil when it is not a plain local.
func allocOf(v ssa.Value) *ssa.Alloc {
	for depth := 0; depth < 8; depth++ {
		switch x := v.(type) {
		case *ssa.Alloc:
			return x
		case *ssa.FreeVar:
			g := x.Parent()
			if g == nil || g.Parent() == nil {
				return nil
			}
			idx := -1
			for i, fv := range g.FreeVars {
				if fv == x {
					idx = i
				}
			}
			var mc *ssa.MakeClosure
			n := 0
			for _, b := range g.Parent().Blocks {
				for _, in := range b.Instrs {
					if m, ok := in.(*ssa.MakeClosure); ok && m.Fn == ssa.Value(g) {
						mc = m
						n++
					}
				}
			}
			if mc == nil || n != 1 || idx < 0 || idx >= len(mc.Bindings) {
				return nil
			}
			v = mc.Bindings[idx]
		default:
			return nil
		}
	}
	return nil
}

// localClosureOf: v is a load from a local variable of function type that is assigned exactly once in the whole
// nest of functions, and what is assigned is a function literal: that literal's MakeClosure. Otherwise nil.
func localClosureOf(v ssa.Value) *ssa.MakeClosure {
	ld, ok := v.(*ssa.UnOp)
	if !ok || ld.Op != token.MUL {
		return nil
	}
	al := allocOf(ld.X)
	if al == nil || al.Parent() == nil {
		return nil
	}
	var stored ssa.Value
	stores := 0
	escapes := false
	var walk func(f *ssa.Function)
	walk = func(f *ssa.Function) {
		for _, b := range f.Blocks {
			for _, in := range b.Instrs {
				switch x := in.(type) {
				case *ssa.Store:
					if allocOf(x.Addr) == al {
						stores++
						stored = x.Val
					} else if a, isAddr := x.Val.(*ssa.Alloc); isAddr && a == al {
						escapes = true
					}
				case *ssa.UnOp, *ssa.MakeClosure, *ssa.DebugRef:
				default:
					// the address handed to anything else (a call, a field, an interface): someone else may write it
					for _, op := range in.Operands(nil) {
						if op != nil && *op != nil {
							if a, isAddr := (*op).(*ssa.Alloc); isAddr && a == al {
								escapes = true
							}
							if fv, isFV := (*op).(*ssa.FreeVar); isFV && allocOf(fv) == al {
								escapes = true
							}
						}
					}
				}
			}
		}
		for _, an := range f.AnonFuncs {
			walk(an)
		}
	}
	walk(al.Parent())
	if stores != 1 || escapes {
		return nil
	}
	mc, _ := stored.(*ssa.MakeClosure)
	return mc
}
