package main

import (
	"fmt"
	"strconv"
	"strings"
	"unicode"
)

// Spec expression AST.
type Expr interface{ String() string }

type (
	EIdent struct{ Name string }
	EInt   struct{ V string }
	EStr   struct{ V string }
	EBool  struct{ V bool }
	ENil   struct{}
	EUnary struct {
		Op string
		X  Expr
	}
	EBinary struct {
		Op   string
		X, Y Expr
	}
	ECall struct {
		Fn   string
		Recv Expr // method-style call x.Fn(args) (nil for plain)
		Args []Expr
	}
	ESelect struct {
		X Expr
		F string
	}
	EIndex struct{ X, I Expr }
	ESlice struct{ X, Lo, Hi Expr }
	EQuant struct {
		Forall bool
		Vars   []string
		Types  []string
		Body   Expr
	}
	ECond struct{ C, A, B Expr }
	EStar struct{ X Expr } // x[*] in assigns
)

func (e *EIdent) String() string  { return e.Name }
func (e *EInt) String() string    { return e.V }
func (e *EStr) String() string    { return strconv.Quote(e.V) }
func (e *EBool) String() string   { return fmt.Sprint(e.V) }
func (e *ENil) String() string    { return "nil" }
func (e *EUnary) String() string  { return e.Op + e.X.String() }
func (e *EBinary) String() string { return "(" + e.X.String() + " " + e.Op + " " + e.Y.String() + ")" }
func (e *ECall) String() string {
	var as []string
	for _, a := range e.Args {
		as = append(as, a.String())
	}
	if e.Recv != nil {
		return e.Recv.String() + "." + e.Fn + "(" + strings.Join(as, ", ") + ")"
	}
	return e.Fn + "(" + strings.Join(as, ", ") + ")"
}
func (e *ESelect) String() string { return e.X.String() + "." + e.F }
func (e *EIndex) String() string  { return e.X.String() + "[" + e.I.String() + "]" }
func (e *ESlice) String() string  { return e.X.String() + "[:]" }
func (e *EQuant) String() string {
	q := "exists"
	if e.Forall {
		q = "forall"
	}
	return q + " " + strings.Join(e.Vars, ",") + " :: " + e.Body.String()
}
func (e *ECond) String() string { return e.C.String() + " ? " + e.A.String() + " : " + e.B.String() }
func (e *EStar) String() string { return e.X.String() + "[*]" }

type tok struct {
	k string // "id","int","str","op","eof"
	v string
}

func lexSpec(s string) ([]tok, error) {
	var out []tok
	rs := []rune(s)
	i := 0
	for i < len(rs) {
		c := rs[i]
		switch {
		case unicode.IsSpace(c):
			i++
		case unicode.IsLetter(c) || c == '_' || c == '$':
			j := i
			for j < len(rs) && (unicode.IsLetter(rs[j]) || unicode.IsDigit(rs[j]) || rs[j] == '_' || rs[j] == '$') {
				j++
			}
			out = append(out, tok{"id", string(rs[i:j])})
			i = j
		case unicode.IsDigit(c):
			j := i
			for j < len(rs) && (unicode.IsDigit(rs[j]) || rs[j] == 'x' || (rs[j] >= 'a' && rs[j] <= 'f') || (rs[j] >= 'A' && rs[j] <= 'F')) {
				j++
			}
			out = append(out, tok{"int", string(rs[i:j])})
			i = j
		case c == '"' || c == '`':
			j := i + 1
			for j < len(rs) && rs[j] != c {
				if rs[j] == '\\' && c == '"' {
					j++
				}
				j++
			}
			if j >= len(rs) {
				return nil, fmt.Errorf("unterminated string")
			}
			lit := string(rs[i : j+1])
			v, err := strconv.Unquote(lit)
			if err != nil {
				return nil, fmt.Errorf("bad string literal %s", lit)
			}
			out = append(out, tok{"str", v})
			i = j + 1
		case c == '\'':
			j := i + 1
			for j < len(rs) && rs[j] != '\'' {
				if rs[j] == '\\' {
					j++
				}
				j++
			}
			if j >= len(rs) {
				return nil, fmt.Errorf("unterminated char")
			}
			v, _, _, err := strconv.UnquoteChar(string(rs[i+1:j]), '\'')
			if err != nil {
				return nil, err
			}
			out = append(out, tok{"int", fmt.Sprint(int(v))})
			i = j + 1
		default:
			three := ""
			if i+3 <= len(rs) {
				three = string(rs[i : i+3])
			}
			two := ""
			if i+2 <= len(rs) {
				two = string(rs[i : i+2])
			}
			switch {
			case three == "==>" || three == "[*]":
				out = append(out, tok{"op", three})
				i += 3
			case two == "==" || two == "!=" || two == "<=" || two == ">=" || two == "&&" || two == "||" || two == "::":
				out = append(out, tok{"op", two})
				i += 2
			case strings.ContainsRune("+-*/%<>!.()[],?:", c):
				out = append(out, tok{"op", string(c)})
				i++
			default:
				return nil, fmt.Errorf("unexpected character %q", c)
			}
		}
	}
	out = append(out, tok{"eof", ""})
	return out, nil
}

type sparser struct {
	toks []tok
	p    int
}

func parseSpec(src string) (e Expr, err error) {
	toks, err := lexSpec(src)
	if err != nil {
		return nil, err
	}
	p := &sparser{toks: toks}
	defer func() {
		if r := recover(); r != nil {
			err = fmt.Errorf("%v in spec %q", r, src)
		}
	}()
	e = p.expr(0)
	if p.peek().k != "eof" {
		panic(fmt.Sprintf("unexpected %q", p.peek().v))
	}
	return e, nil
}

func (p *sparser) peek() tok { return p.toks[p.p] }
func (p *sparser) next() tok { t := p.toks[p.p]; p.p++; return t }
func (p *sparser) accept(v string) bool {
	if t := p.peek(); t.k == "op" && t.v == v {
		p.p++
		return true
	}
	return false
}
func (p *sparser) expect(v string) {
	if !p.accept(v) {
		panic(fmt.Sprintf("expected %q, found %q", v, p.peek().v))
	}
}

var binPrec = map[string]int{
	"==>": 1, "||": 2, "&&": 3,
	"==": 4, "!=": 4, "<": 4, "<=": 4, ">": 4, ">=": 4,
	"+": 5, "-": 5, "*": 6, "/": 6, "%": 6,
}

func (p *sparser) expr(minPrec int) Expr {
	lhs := p.unary()
	for {
		t := p.peek()
		if t.k != "op" {
			break
		}
		if t.v == "?" && minPrec <= 0 {
			p.next()
			a := p.expr(1)
			p.expect(":")
			b := p.expr(0)
			lhs = &ECond{lhs, a, b}
			continue
		}
		prec, ok := binPrec[t.v]
		if !ok || prec < minPrec {
			break
		}
		p.next()
		var rhs Expr
		if t.v == "==>" {
			rhs = p.expr(prec) // right assoc
		} else {
			rhs = p.expr(prec + 1)
		}
		lhs = &EBinary{t.v, lhs, rhs}
	}
	return lhs
}

func (p *sparser) unary() Expr {
	t := p.peek()
	if t.k == "op" && (t.v == "!" || t.v == "-") {
		p.next()
		return &EUnary{t.v, p.unary()}
	}
	if t.k == "id" && (t.v == "forall" || t.v == "exists") {
		p.next()
		q := &EQuant{Forall: t.v == "forall"}
		for {
			name := p.next()
			if name.k != "id" {
				panic("quantifier variable expected")
			}
			// type: sequence of tokens up to ',' or '::'
			ty := ""
			for !(p.peek().k == "op" && (p.peek().v == "," || p.peek().v == "::")) {
				if p.peek().k == "eof" {
					panic("'::' expected in quantifier")
				}
				ty += p.next().v
			}
			q.Vars = append(q.Vars, name.v)
			q.Types = append(q.Types, ty)
			if p.accept(",") {
				continue
			}
			p.expect("::")
			break
		}
		q.Body = p.expr(0)
		return q
	}
	return p.postfix(p.primary())
}

func (p *sparser) primary() Expr {
	t := p.next()
	switch t.k {
	case "int":
		return &EInt{t.v}
	case "str":
		return &EStr{t.v}
	case "id":
		switch t.v {
		case "true":
			return &EBool{true}
		case "false":
			return &EBool{false}
		case "nil":
			return &ENil{}
		}
		return &EIdent{t.v}
	case "op":
		if t.v == "(" {
			e := p.expr(0)
			p.expect(")")
			return e
		}
		if t.v == "*" {
			// pointer deref *p
			return &EUnary{"*", p.unary()}
		}
	}
	panic(fmt.Sprintf("unexpected %q", t.v))
}

func (p *sparser) postfix(e Expr) Expr {
	for {
		switch {
		case p.accept("."):
			name := p.next()
			if name.k != "id" && name.k != "int" {
				panic("field name expected")
			}
			if p.accept("(") {
				args := p.args()
				e = &ECall{Fn: name.v, Recv: e, Args: args}
			} else {
				e = &ESelect{e, name.v}
			}
		case p.accept("[*]"):
			e = &EStar{e}
		case p.accept("["):
			if p.accept(":") {
				hi := p.expr(0)
				p.expect("]")
				e = &ESlice{e, nil, hi}
				continue
			}
			i := p.expr(0)
			if p.accept(":") {
				var hi Expr
				if !(p.peek().k == "op" && p.peek().v == "]") {
					hi = p.expr(0)
				}
				p.expect("]")
				e = &ESlice{e, i, hi}
				continue
			}
			p.expect("]")
			e = &EIndex{e, i}
		case p.peek().k == "op" && p.peek().v == "(":
			id, ok := e.(*EIdent)
			if !ok {
				return e
			}
			p.next()
			e = &ECall{Fn: id.Name, Args: p.args()}
		default:
			return e
		}
	}
}

func (p *sparser) args() []Expr {
	var args []Expr
	if p.accept(")") {
		return args
	}
	for {
		args = append(args, p.expr(0))
		if p.accept(",") {
			continue
		}
		p.expect(")")
		return args
	}
}

// splitConj splits top-level conjunctions so that each conjunct is its own obligation.
func splitConj(e Expr) []Expr {
	if b, ok := e.(*EBinary); ok && b.Op == "&&" {
		return append(splitConj(b.X), splitConj(b.Y)...)
	}
	return []Expr{e}
}

// substExpr replaces free identifiers by expressions (used to unfold predicates into conjuncts).
func substExpr(e Expr, m map[string]Expr) Expr {
	switch n := e.(type) {
	case *EIdent:
		if r, ok := m[n.Name]; ok {
			return r
		}
		return n
	case *EUnary:
		return &EUnary{n.Op, substExpr(n.X, m)}
	case *EBinary:
		return &EBinary{n.Op, substExpr(n.X, m), substExpr(n.Y, m)}
	case *ECall:
		c := &ECall{Fn: n.Fn}
		if n.Recv != nil {
			c.Recv = substExpr(n.Recv, m)
		}
		for _, a := range n.Args {
			c.Args = append(c.Args, substExpr(a, m))
		}
		return c
	case *ESelect:
		return &ESelect{substExpr(n.X, m), n.F}
	case *EIndex:
		return &EIndex{substExpr(n.X, m), substExpr(n.I, m)}
	case *ESlice:
		s := &ESlice{X: substExpr(n.X, m)}
		if n.Lo != nil {
			s.Lo = substExpr(n.Lo, m)
		}
		if n.Hi != nil {
			s.Hi = substExpr(n.Hi, m)
		}
		return s
	case *EQuant:
		m2 := map[string]Expr{}
		for k, v := range m {
			m2[k] = v
		}
		for _, v := range n.Vars {
			delete(m2, v)
		}
		return &EQuant{n.Forall, n.Vars, n.Types, substExpr(n.Body, m2)}
	case *ECond:
		return &ECond{substExpr(n.C, m), substExpr(n.A, m), substExpr(n.B, m)}
	case *EStar:
		return &EStar{substExpr(n.X, m)}
	}
	return e
}

// unfoldConj splits a clause into conjuncts, unfolding same-package predicate calls at the top level.
func unfoldConj(e Expr, preds map[string]*Pred, pkg string, depth int) []Expr {
	switch n := e.(type) {
	case *EBinary:
		if n.Op == "&&" {
			return append(unfoldConj(n.X, preds, pkg, depth), unfoldConj(n.Y, preds, pkg, depth)...)
		}
		if n.Op == "==>" {
			rhs := unfoldConj(n.Y, preds, pkg, depth)
			if len(rhs) > 1 {
				var out []Expr
				for _, r := range rhs {
					out = append(out, &EBinary{"==>", n.X, r})
				}
				return out
			}
		}
	case *ECall:
		if p, ok := preds[n.Fn]; ok && n.Recv == nil && depth < 4 && p.Pkg == pkg && len(p.Params) == len(n.Args) {
			m := map[string]Expr{}
			for i, a := range n.Args {
				m[p.Params[i]] = a
			}
			return unfoldConj(substExpr(p.Body, m), preds, pkg, depth+1)
		}
	}
	return []Expr{e}
}
