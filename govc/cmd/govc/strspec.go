package main

import (
	"fmt"
	"strings"
	"unicode/utf8"
)

// Executable reference definitions of the string spec functions (DESIGN §3).

func refIsControl(r rune) bool { return r <= 0x1f || (r >= 0x7f && r <= 0x9f) }

func refClean(s string) bool {
	if !utf8.ValidString(s) {
		// invalid bytes decode to U+FFFD when ranged over; they are not control characters
	}
	for _, r := range s {
		if r != '\n' && refIsControl(r) {
			return false
		}
	}
	return true
}

func refDigits(s string) bool {
	for _, r := range s {
		if r < '0' || r > '9' {
			return false
		}
	}
	return true
}

func refNoCTL(s string) bool {
	for i := 0; i < len(s); i++ {
		if s[i] < 0x20 || s[i] == 0x7f {
			return false
		}
	}
	return true
}

// refSgrch: only the characters of SGR parameters.
func refSgrch(s string) bool {
	for _, r := range s {
		if !(r >= '0' && r <= '9' || r == ';') {
			return false
		}
	}
	return true
}

// refSgr: a non-empty SGR parameter string other than the reset parameter "0" (ESC[0m is the cell terminator;
// keeping it out of the style parameters makes the cell parse of a string unique and equal to the way
// ansi.expand's regular expression tiles it).
func refSgr(s string) bool {
	return s != "" && s != "0" && refSgrch(s)
}

// refSgrs: a (possibly empty) sequence of SGR sequences ESC[<sgr>m.
func refSgrs(s string) bool {
	for len(s) > 0 {
		if !strings.HasPrefix(s, "\x1b[") {
			return false
		}
		i := strings.IndexByte(s, 'm')
		if i < 0 || !refSgr(s[2:i]) {
			return false
		}
		s = s[i+1:]
	}
	return true
}

// refP1: exactly one rune that is neither a control character nor a newline (a bare visible cell).
func refP1(s string) bool {
	if s == "" || !utf8.ValidString(s) {
		return false
	}
	r, n := utf8.DecodeRuneInString(s)
	return n == len(s) && !refIsControl(r)
}

// refIsSpace mirrors unicode.IsSpace.
func refIsSpace(r rune) bool {
	switch {
	case r >= 9 && r <= 13, r == 32, r == 133, r == 160, r == 5760, r >= 8192 && r <= 8202, r == 8232, r == 8233, r == 8239, r == 8287, r == 12288:
		return true
	}
	return false
}

// refLines: for a cell-language string, the visible lengths of its lines and the number of cells whose rune is
// not white space.
func refLines(s string) (ok bool, lines []int, nonSpace int) {
	lines = []int{0}
	for len(s) > 0 {
		if s[0] == '\n' {
			s = s[1:]
			lines = append(lines, 0)
			continue
		}
		styled := false
		for strings.HasPrefix(s, "\x1b[") {
			i := strings.IndexByte(s, 'm')
			if i < 0 || !refSgr(s[2:i]) {
				return false, nil, 0
			}
			s = s[i+1:]
			styled = true
		}
		if len(s) == 0 {
			return false, nil, 0
		}
		r, n := utf8.DecodeRuneInString(s)
		if refIsControl(r) {
			return false, nil, 0
		}
		s = s[n:]
		lines[len(lines)-1]++
		if !refIsSpace(r) {
			nonSpace++
		}
		if styled {
			if !strings.HasPrefix(s, "\x1b[0m") {
				return false, nil, 0
			}
			s = s[4:]
		}
	}
	return true, lines, nonSpace
}

// refCells parses s in the cell language L; returns ok, number of non-newline cells.
func refCells(s string) (bool, int) {
	vis := 0
	for len(s) > 0 {
		if s[0] == '\n' {
			s = s[1:]
			continue
		}
		styled := false
		for strings.HasPrefix(s, "\x1b[") {
			i := strings.IndexByte(s, 'm')
			if i < 0 || !refSgr(s[2:i]) {
				return false, 0
			}
			s = s[i+1:]
			styled = true
		}
		if len(s) == 0 {
			return false, 0
		}
		r, n := utf8.DecodeRuneInString(s)
		if refIsControl(r) {
			return false, 0
		}
		s = s[n:]
		vis++
		if styled {
			if !strings.HasPrefix(s, "\x1b[0m") {
				return false, 0
			}
			s = s[4:]
		}
	}
	return true, vis
}

// refNsx: a cell-language string with its blank cells (white space, newlines) removed.
func refNsx(s string) (string, bool) {
	out := ""
	for len(s) > 0 {
		if s[0] == '\n' {
			s = s[1:]
			continue
		}
		start := s
		styled := false
		for strings.HasPrefix(s, "\x1b[") {
			i := strings.IndexByte(s, 'm')
			if i < 0 || !refSgr(s[2:i]) {
				return "", false
			}
			s = s[i+1:]
			styled = true
		}
		if len(s) == 0 {
			return "", false
		}
		r, n := utf8.DecodeRuneInString(s)
		if refIsControl(r) {
			return "", false
		}
		s = s[n:]
		if styled {
			if !strings.HasPrefix(s, "\x1b[0m") {
				return "", false
			}
			s = s[4:]
		}
		if !refIsSpace(r) {
			out += start[:len(start)-len(s)]
		}
	}
	return out, true
}

func strLitFacts(name, lit string) []string {
	var fs []string
	fs = append(fs, fmt.Sprintf("(= (blen %s) %d)", name, len(lit)))
	fs = append(fs, fmt.Sprintf("(= (nl %s) %d)", name, strings.Count(lit, "\n")))
	fs = append(fs, fmt.Sprintf("(= (noNL %s) %v)", name, !strings.Contains(lit, "\n")))
	fs = append(fs, fmt.Sprintf("(= (clean %s) %v)", name, refClean(lit)))
	ok, vis := refCells(lit)
	fs = append(fs, fmt.Sprintf("(= (wf %s) %v)", name, ok))
	if ok {
		fs = append(fs, fmt.Sprintf("(= (vlen %s) %d)", name, vis))
	} else {
		fs = append(fs, fmt.Sprintf("(<= 0 (vlen %s))", name))
	}
	fs = append(fs, fmt.Sprintf("(= (digits %s) %v)", name, refDigits(lit)))
	fs = append(fs, fmt.Sprintf("(= (noCTL %s) %v)", name, refNoCTL(lit)))
	fs = append(fs, fmt.Sprintf("(= (sgr %s) %v)", name, refSgr(lit)))
	fs = append(fs, fmt.Sprintf("(= (sgrch %s) %v)", name, refSgrch(lit)))
	fs = append(fs, fmt.Sprintf("(= (sgrs %s) %v)", name, refSgrs(lit)))
	fs = append(fs, fmt.Sprintf("(= (p1 %s) %v)", name, refP1(lit)))
	if ok2, lines, ns := refLines(lit); ok2 {
		mx := 0
		for _, l := range lines {
			if l > mx {
				mx = l
			}
		}
		fs = append(fs, fmt.Sprintf("(= (mxl %s) %d)", name, mx), fmt.Sprintf("(= (fstl %s) %d)", name, lines[0]), fmt.Sprintf("(= (lstl %s) %d)", name, lines[len(lines)-1]), fmt.Sprintf("(= (nsc %s) %d)", name, ns))
		mm := "9223372036854775808" // no interior line
		for i := 1; i+1 < len(lines); i++ {
			if v, ok := litInt(mm); !ok || int64(lines[i]) < v {
				mm = fmt.Sprint(lines[i])
			}
		}
		fs = append(fs, fmt.Sprintf("(= (mmin %s) %s)", name, mm))
		ne := 0
		for _, l := range lines {
			if l == 0 {
				ne++
			}
		}
		fs = append(fs, fmt.Sprintf("(= (nel %s) %d)", name, ne))
	}
	return fs
}

var empFacts = []string{
	"(= (blen emp) 0)", "(= (nl emp) 0)", "(= (vlen emp) 0)", "(clean emp)", "(wf emp)", "(digits emp)", "(noNL emp)", "(noCTL emp)", "(not (sgr emp))", "(sgrch emp)", "(sgrs emp)", "(not (p1 emp))", "(= (mxl emp) 0)", "(= (fstl emp) 0)", "(= (lstl emp) 0)", "(= (mmin emp) 9223372036854775808)", "(= (nel emp) 1)", "(= (nsc emp) 0)",
}
