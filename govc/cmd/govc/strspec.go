package main

import (
	"fmt"
	"strings"
	"unicode/utf8"
)

// Executable reference definitions of the string spec functions (DESIGN §3).

func refIsControl(r rune) bool { return r <= 0x1f || (r >= 0x7f && r <= 0x9f) }

func refClean(s string) bool {
	if !utf8.ValidString(s) {
		// invalid bytes decode to U+FFFD when ranged over; they are not control characters
	}
	for _, r := range s {
		if r != '\n' && refIsControl(r) {
			return false
		}
	}
	return true
}

func refDigits(s string) bool {
	for _, r := range s {
		if r < '0' || r > '9' {
			return false
		}
	}
	return true
}

func refNoCTL(s string) bool {
	for i := 0; i < len(s); i++ {
		if s[i] < 0x20 || s[i] == 0x7f {
			return false
		}
	}
	return true
}

func refSgr(s string) bool {
	if s == "" {
		return false
	}
	for _, r := range s {
		if !(r >= '0' && r <= '9' || r == ';') {
			return false
		}
	}
	return true
}

// refCells parses s in the cell language L; returns ok, number of non-newline cells.
func refCells(s string) (bool, int) {
	vis := 0
	for len(s) > 0 {
		if s[0] == '\n' {
			s = s[1:]
			continue
		}
		styled := false
		for strings.HasPrefix(s, "\x1b[") {
			i := strings.IndexByte(s, 'm')
			if i < 0 || !refSgr(s[2:i]) {
				return false, 0
			}
			s = s[i+1:]
			styled = true
		}
		if len(s) == 0 {
			return false, 0
		}
		r, n := utf8.DecodeRuneInString(s)
		if refIsControl(r) {
			return false, 0
		}
		s = s[n:]
		vis++
		if styled {
			if !strings.HasPrefix(s, "\x1b[0m") {
				return false, 0
			}
			s = s[4:]
		}
	}
	return true, vis
}

func strLitFacts(name, lit string) []string {
	var fs []string
	fs = append(fs, fmt.Sprintf("(= (blen %s) %d)", name, len(lit)))
	fs = append(fs, fmt.Sprintf("(= (nl %s) %d)", name, strings.Count(lit, "\n")))
	fs = append(fs, fmt.Sprintf("(= (noNL %s) %v)", name, !strings.Contains(lit, "\n")))
	fs = append(fs, fmt.Sprintf("(= (clean %s) %v)", name, refClean(lit)))
	ok, vis := refCells(lit)
	fs = append(fs, fmt.Sprintf("(= (wf %s) %v)", name, ok))
	if ok {
		fs = append(fs, fmt.Sprintf("(= (vlen %s) %d)", name, vis))
	} else {
		fs = append(fs, fmt.Sprintf("(<= 0 (vlen %s))", name))
	}
	fs = append(fs, fmt.Sprintf("(= (digits %s) %v)", name, refDigits(lit)))
	fs = append(fs, fmt.Sprintf("(= (noCTL %s) %v)", name, refNoCTL(lit)))
	fs = append(fs, fmt.Sprintf("(= (sgr %s) %v)", name, refSgr(lit)))
	return fs
}

var empFacts = []string{
	"(= (blen emp) 0)", "(= (nl emp) 0)", "(= (vlen emp) 0)", "(clean emp)", "(wf emp)", "(digits emp)", "(noNL emp)", "(noCTL emp)", "(not (sgr emp))",
}
