package main

import (
	"context"
	"fmt"
	"go/types"
	"os"
	"strings"

	"golang.org/x/tools/go/ssa"
)

// Assumed contracts of strings/strconv/unicode/math functions over the string abstraction of DESIGN §3.
// Each entry is listed in the evidence of the properties that used it (FnCtx.assumed).

func callArg(site ssa.Instruction, i int) ssa.Value {
	if c, ok := site.(ssa.CallInstruction); ok && i < len(c.Common().Args) {
		return c.Common().Args[i]
	}
	return nil
}

func (s *State) used(name string) { s.c.assumed["library contract assumed: "+name] = true }

// array-level predicates over the backing array of a []string
func (s *State) declArrPreds() {
	for _, p := range []string{"allNoNL", "allWf", "allClean"} {
		s.c.declare(p, fmt.Sprintf("(declare-fun %s ((Array Int Str)) Bool)", p))
	}
}

func (s *State) strElems(base string) string {
	key := elemKey(strT, nil, "")
	return sel(s.heapGet(key, arrSort(sInt, arrSort(sInt, sStr))), base)
}

func (s *State) newStrSlice(n string, hint string) (Val, string) {
	b := s.newRef()
	key := elemKey(strT, nil, "")
	srt := arrSort(sInt, arrSort(sInt, sStr))
	inner := s.c.freshConst(hint, arrSort(sInt, sStr))
	s.heapSet(key, srt, sto(s.heapGet(key, srt), b, inner))
	return Val{T: strSliceT, Sl: &SliceV{b, "0", n, n}}, inner
}

// sums of a measure over the elements [lo, hi) of a string array
func (s *State) declSums() {
	for _, f := range []string{"vlen", "nsc"} {
		s.c.declare("ssum_"+f, fmt.Sprintf("(declare-fun ssum_%s ((Array Int Str) Int Int) Int)", f))
	}
	s.c.declare("scat_nsx", "(declare-fun scat_nsx ((Array Int Str) Int Int) Str)")
}

func (s *State) freshStr(hint string) Val {
	r := s.freshVal(strT, hint)
	s.strBasics(r.S)
	return r
}

func registerStrings(e *Engine) {
	L := e.lib
	L["strings.Count"] = func(s *State, site ssa.Instruction, a []Val) []Val {
		s.used("strings.Count(s, \"\\n\") == nl(s)")
		if sep, ok := constString(callArg(site, 1)); ok && sep == "\n" {
			s.strBasics(a[0].S)
			return []Val{{T: intT, S: s.define("cnt", sInt, app("nl", a[0].S))}}
		}
		r := s.freshVal(intT, "count")
		s.assume(app("<=", "0", r.S))
		return []Val{r}
	}
	L["strings.Split"] = func(s *State, site ssa.Instruction, a []Val) []Val {
		s.declArrPreds()
		s.strBasics(a[0].S)
		sep, ok := constString(callArg(site, 1))
		if ok && sep == "\n" {
			s.used("strings.Split(s, \"\\n\"): nl(s)+1 newline-free pieces; wf/clean pieces when s is wf/clean")
			n := s.define("spl", sInt, app("+", app("nl", a[0].S), "1"))
			v, inner := s.newStrSlice(n, "split")
			s.assume(app("allNoNL", inner))
			s.assume(implies(app("wf", a[0].S), app("allWf", inner)))
			s.assume(implies(app("clean", a[0].S), app("allClean", inner)))
			s.c.declare("joinNL", "(declare-fun joinNL ((Array Int Str) Int Int) Str)")
			s.assume(eq(app("joinNL", inner, "0", n), a[0].S))
			{
				k := fmt.Sprintf("k!%d", s.c.fresh)
				s.c.fresh++
				el := sel(inner, k)
				s.assume(fmt.Sprintf("(forall ((%s Int)) (! (=> (and (<= 0 %s) (< %s %s)) %s) :pattern (%s)))", k, k, k, n,
					and(app("noNL", el), app("<=", "0", app("vlen", el)), app("<=", "0", app("nsc", el)), app("<=", app("nsc", el), app("vlen", el)),
						implies(app("wf", a[0].S), and(app("wf", el), app("<=", app("vlen", el), app("mxl", a[0].S)))),
						implies(app("clean", a[0].S), app("clean", el))), el))
			}
			return []Val{v}
		}
		n := s.c.freshConst("spl", sInt)
		s.assume(app("<=", "1", n))
		v, _ := s.newStrSlice(n, "split")
		return []Val{v}
	}
	L["strings.SplitN"] = func(s *State, site ssa.Instruction, a []Val) []Val {
		s.used("strings.SplitN(s, sep, n): between 1 and n pieces (n > 0), each a substring of s")
		s.declArrPreds()
		n := s.c.freshConst("spln", sInt)
		s.assume(and(app("<=", "1", n), implies(app(">", a[2].S, "0"), app("<=", n, a[2].S))))
		v, inner := s.newStrSlice(n, "splitn")
		s.assume(implies(app("clean", a[0].S), app("allClean", inner)))
		s.assume(implies(app("noNL", a[0].S), app("allNoNL", inner)))
		return []Val{v}
	}
	L["strings.Join"] = func(s *State, site ssa.Instruction, a []Val) []Val {
		s.declArrPreds()
		r := s.freshStr("join")
		xs := a[0]
		if xs.Sl == nil {
			return []Val{{T: strT, S: "emp"}}
		}
		inner := s.strElems(xs.Sl.Base)
		s.assume(implies(eq(xs.Sl.Len, "0"), eq(r.S, "emp")))
		sep, ok := constString(callArg(site, 1))
		if ok {
			s.used("strings.Join(xs, sep): nl(result) == (len-1)*nl(sep) for newline-free xs; wf/clean preserved; for sep \"\\n\" the lines of the result are the (newline-free) elements")
			k := strings.Count(sep, "\n")
			gaps := ite(app(">=", xs.Sl.Len, "1"), app("-", xs.Sl.Len, "1"), "0")
			s.assume(implies(app("allNoNL", inner), eq(app("nl", r.S), app("*", fmt.Sprint(k), gaps))))
			okc, _ := refCells(sep)
			if okc {
				s.assume(implies(app("allWf", inner), app("wf", r.S)))
			}
			if refClean(sep) {
				s.assume(implies(app("allClean", inner), app("clean", r.S)))
			}
			if sep == "\n" {
				s.c.declare("joinNL", "(declare-fun joinNL ((Array Int Str) Int Int) Str)")
				s.assume(eq(r.S, app("joinNL", inner, xs.Sl.Off, app("+", xs.Sl.Off, xs.Sl.Len))))
			}
			if s.c.useLines || s.c.cellsMode {
				// element-wise version with witnesses: a property of all elements carries over to the result, i.e.
				// the result has it or some element (the witness) lacks it
				lo, hi := xs.Sl.Off, app("+", xs.Sl.Off, xs.Sl.Len)
				bad := func(p string, neg bool) string {
					w := s.c.freshConst("jw", sInt) // relative index of the witness
					el := sel(inner, ixT(xs.Sl.Off, w))
					s.strBasics(el)
					body := app(p, el)
					if !neg {
						body = not(body)
					}
					return and(app("<=", "0", w), app("<", w, xs.Sl.Len), body)
				}
				badWf, badNL := bad("wf", false), bad("noNL", false)
				if okc {
					s.assume(or(app("wf", r.S), badWf))
				}
				if refClean(sep) {
					s.assume(or(app("clean", r.S), bad("clean", false)))
				}
				s.assume(or(badNL, eq(app("nl", r.S), app("*", fmt.Sprint(k), gaps))))
				if sep == "\n" {
					s.declSums()
					km := s.c.freshConst("jmax", sInt)
					elm := sel(inner, ixT(xs.Sl.Off, km))
					s.strBasics(elm)
					s.assume(or(badWf, badNL, and(eq(xs.Sl.Len, "0"), eq(app("mxl", r.S), "0")),
						and(app("<=", "0", km), app("<", km, xs.Sl.Len), eq(app("mxl", r.S), app("vlen", elm)))))
					first, last := sel(inner, ixT(xs.Sl.Off, "0")), sel(inner, ixT(xs.Sl.Off, app("-", xs.Sl.Len, "1")))
					s.strBasics(first)
					s.strBasics(last)
					s.assume(or(badWf, badNL, eq(xs.Sl.Len, "0"), and(eq(app("fstl", r.S), app("vlen", first)), eq(app("lstl", r.S), app("vlen", last)))))
					s.assume(or(badWf, and(eq(app("vlen", r.S), app("ssum_vlen", inner, lo, hi)), eq(app("nsc", r.S), app("ssum_nsc", inner, lo, hi)))))
					s.assume(and(eq(app("ssum_vlen", inner, lo, lo), "0"), eq(app("ssum_nsc", inner, lo, lo), "0")))
					if s.c.strOrder {
						s.declOrder()
						s.assume(or(badWf, eq(app("nsx", r.S), app("scat_nsx", inner, lo, hi))))
						s.assume(eq(app("scat_nsx", inner, lo, lo), "emp"))
					}
				}
			}
		}
		return []Val{r}
	}
	L["strings.Repeat"] = func(s *State, site ssa.Instruction, a []Val) []Val {
		s.used("strings.Repeat(s, n): requires n >= 0; additive measures scale by n; conjunctive predicates preserved")
		n := a[1].S
		s.oblige("lib-pre:strings.Repeat", site, s.c.ordinal(site, "lib-pre:strings.Repeat"), app("<=", "0", n), "strings.Repeat: negative Repeat count", false)
		s.assume(app("<=", "0", n))
		r := s.freshStr("repeat")
		s.c.declare("repeatS", "(declare-fun repeatS (Str Int) Str)")
		s.assume(eq(r.S, app("repeatS", a[0].S, n)))
		if lit, ok := constString(callArg(site, 0)); ok {
			okc, vis := refCells(lit)
			s.assume(eq(app("nl", r.S), app("*", fmt.Sprint(strings.Count(lit, "\n")), n)))
			s.assume(eq(app("blen", r.S), app("*", fmt.Sprint(len(lit)), n)))
			if okc {
				s.assume(eq(app("vlen", r.S), app("*", fmt.Sprint(vis), n)))
				if _, _, ns := refLines(lit); true {
					s.assume(eq(app("nsc", r.S), app("*", fmt.Sprint(ns), n)))
				}
			}
		} else {
			s.assume(implies(eq(n, "1"), eq(r.S, a[0].S)))
			s.assume(implies(eq(app("nl", a[0].S), "0"), eq(app("nl", r.S), "0")))
		}
		s.assume(implies(eq(n, "0"), eq(r.S, "emp")))
		for _, p := range []string{"clean", "wf", "digits", "noCTL"} {
			s.assume(implies(app(p, a[0].S), app(p, r.S)))
		}
		return []Val{r}
	}
	L["strings.Contains"] = func(s *State, site ssa.Instruction, a []Val) []Val {
		if sub, ok := constString(callArg(site, 1)); ok && sub == "\n" {
			s.used("strings.Contains(s, \"\\n\") == (nl(s) > 0)")
			s.strBasics(a[0].S)
			return []Val{{T: boolT, S: s.define("has", sBool, app(">", app("nl", a[0].S), "0"))}}
		}
		return []Val{s.freshVal(boolT, "contains")}
	}
	L["strings.HasPrefix"] = func(s *State, site ssa.Instruction, a []Val) []Val {
		s.c.declare("hasPrefix", "(declare-fun hasPrefix (Str Str) Bool)")
		s.used("strings.HasPrefix: uninterpreted relation; hasPrefix(s,p) implies blen(s) >= blen(p)")
		r := s.define("hp", sBool, app("hasPrefix", a[0].S, a[1].S))
		s.assume(implies(r, app(">=", app("blen", a[0].S), app("blen", a[1].S))))
		return []Val{{T: boolT, S: r}}
	}
	L["strings.TrimSuffix"] = func(s *State, site ssa.Instruction, a []Val) []Val {
		s.used("strings.TrimSuffix(s, \"\\n\"): removes at most one trailing newline; wf/clean preserved")
		r := s.freshStr("trimsfx")
		if sfx, ok := constString(callArg(site, 1)); ok && sfx == "\n" {
			s.strBasics(a[0].S)
			s.assume(or(eq(r.S, a[0].S), and(eq(app("nl", r.S), app("-", app("nl", a[0].S), "1")), eq(app("vlen", r.S), app("vlen", a[0].S)), eq(app("blen", r.S), app("-", app("blen", a[0].S), "1")))))
			s.assume(implies(eq(app("nl", a[0].S), "0"), eq(r.S, a[0].S)))
			for _, p := range []string{"clean", "wf"} {
				s.assume(implies(app(p, a[0].S), app(p, r.S)))
			}
		}
		return []Val{r}
	}
	L["strings.Trim"] = func(s *State, site ssa.Instruction, a []Val) []Val {
		r := s.freshStr("trim")
		if cut, ok := constString(callArg(site, 1)); ok && (cut == " \n" || cut == "\n") {
			s.used("strings.Trim(s, \" \\n\"|\"\\n\"): removes bare spaces/newlines at both ends; wf/clean preserved, nl/vlen do not grow")
			s.strBasics(a[0].S)
			s.assume(app("<=", app("nl", r.S), app("nl", a[0].S)))
			s.assume(app("<=", app("vlen", r.S), app("vlen", a[0].S)))
			s.assume(app("<=", app("blen", r.S), app("blen", a[0].S)))
			for _, p := range []string{"clean", "wf"} {
				s.assume(implies(app(p, a[0].S), app(p, r.S)))
			}
			// only bare spaces/newlines at the ends go away: no line gets longer, no non-blank cell is lost
			s.assume(implies(app("wf", a[0].S), and(app("<=", app("mxl", r.S), app("mxl", a[0].S)), app("<=", "0", app("mxl", r.S)), eq(app("nsc", r.S), app("nsc", a[0].S)))))
		}
		return []Val{r}
	}
	L["strings.LastIndex"] = func(s *State, site ssa.Instruction, a []Val) []Val {
		if sub, ok := constString(callArg(site, 1)); ok && sub == "\n" {
			s.used("strings.LastIndex(s, \"\\n\"): -1 iff nl(s)==0; otherwise the prefix before it has nl(s)-1 newlines and keeps wf/clean")
			s.c.declare("lastNL", "(declare-fun lastNL (Str) Int)")
			s.c.declare("substr", "(declare-fun substr (Str Int Int) Str)")
			x := a[0].S
			s.strBasics(x)
			r := s.define("li", sInt, app("lastNL", x))
			s.assume(implies(eq(app("nl", x), "0"), eq(r, "(- 1)")))
			pre := app("substr", x, "0", r)
			s.assume(implies(app(">", app("nl", x), "0"), and(app("<=", "0", r), app("<", r, app("blen", x)),
				eq(app("nl", pre), app("-", app("nl", x), "1")),
				implies(app("wf", x), app("wf", pre)), implies(app("clean", x), app("clean", pre)))))
			return []Val{{T: intT, S: r}}
		}
		r := s.freshVal(intT, "lastindex")
		s.assume(and(app("<=", "(- 1)", r.S), app("<", r.S, app("blen", a[0].S))))
		return []Val{r}
	}
	L["strings.ReplaceAll"] = func(s *State, site ssa.Instruction, a []Val) []Val {
		r := s.freshStr("replaceall")
		from, ok1 := constString(callArg(site, 1))
		to, ok2 := constString(callArg(site, 2))
		if ok1 && ok2 {
			s.used(fmt.Sprintf("strings.ReplaceAll(s, %q, %q)", from, to))
			x := a[0].S
			s.strBasics(x)
			switch {
			case from == "\n" && !strings.Contains(to, "\n"):
				s.assume(eq(app("nl", r.S), "0"))
				if refClean(to) {
					s.assume(implies(app("clean", x), app("clean", r.S)))
				}
			case !strings.Contains(from, "\n") && !strings.Contains(to, "\n"):
				s.assume(eq(app("nl", r.S), app("nl", x)))
				if refClean(to) {
					s.assume(implies(app("clean", x), app("clean", r.S)))
				}
			}
		}
		return []Val{r}
	}
	L["strings.ToLower"] = func(s *State, site ssa.Instruction, a []Val) []Val {
		s.used("strings.ToLower: clean, newline count and rune count preserved")
		r := s.freshStr("lower")
		x := a[0].S
		s.assume(eq(app("nl", r.S), app("nl", x)))
		s.assume(eq(app("vlen", r.S), app("vlen", x)))
		s.assume(eq(app("clean", r.S), app("clean", x)))
		s.c.declare("toLower", "(declare-fun toLower (Str) Str)")
		s.assume(eq(r.S, app("toLower", x)))
		return []Val{r}
	}
	L["strconv.Itoa"] = func(s *State, site ssa.Instruction, a []Val) []Val {
		s.used("strconv.Itoa(n): n >= 0 gives a non-empty digit string; always clean, newline-free")
		r := s.freshStr("itoa")
		s.c.declare("itoa", "(declare-fun itoa (Int) Str)")
		s.assume(eq(r.S, app("itoa", a[0].S)))
		s.assume(implies(app("<=", "0", a[0].S), and(app("digits", r.S), app(">=", app("blen", r.S), "1"))))
		s.assume(and(app("clean", r.S), app("noNL", r.S), app("noCTL", r.S)))
		s.assume(eq(app("vlen", r.S), app("blen", r.S)))
		return []Val{r}
	}
	L["strconv.Atoi"] = func(s *State, site ssa.Instruction, a []Val) []Val {
		s.used("strconv.Atoi(s): succeeds with a non-negative result for 1..18 digits; otherwise unconstrained")
		r := s.freshVal(intT, "atoi")
		errv, _ := s.newErr("atoi")
		okc := and(app("digits", a[0].S), app("<=", "1", app("blen", a[0].S)), app("<=", app("blen", a[0].S), "18"))
		isNil := s.c.freshConst("atoiok", sBool)
		s.assume(implies(okc, isNil))
		s.assume(implies(isNil, app("<=", "0", r.S)))
		e := Val{T: errorT, S: s.define("atoierr", sIface, ite(isNil, "nilI", errv.S))}
		return []Val{r, e}
	}
	L["strconv.ParseUint"] = func(s *State, site ssa.Instruction, a []Val) []Val {
		s.used("strconv.ParseUint(s, 16, 0): on success 0 <= v < 16^blen(s) (stated for blen(s) <= 2)")
		r := s.freshVal(a[1].T, "parseuint")
		r.T = uint64T
		s.assume(app("<=", "0", r.S))
		errv, _ := s.newErr("parseuint")
		isNil := s.c.freshConst("puok", sBool)
		if a[1].S == "16" {
			s.assume(implies(and(isNil, eq(app("blen", a[0].S), "2")), app("<", r.S, "256")))
			s.assume(implies(and(isNil, eq(app("blen", a[0].S), "1")), app("<", r.S, "16")))
		}
		s.assume(implies(not(isNil), eq(r.S, "0")))
		e := Val{T: errorT, S: s.define("puerr", sIface, ite(isNil, "nilI", errv.S))}
		return []Val{r, e}
	}
	L["unicode.IsControl"] = func(s *State, site ssa.Instruction, a []Val) []Val {
		s.used("unicode.IsControl(r) == (r <= 0x1f || 0x7f <= r <= 0x9f)")
		x := a[0].S
		return []Val{{T: boolT, S: s.define("isctl", sBool, or(and(app("<=", "0", x), app("<=", x, "31")), and(app("<=", "127", x), app("<=", x, "159"))))}}
	}
	L["unicode.IsSpace"] = func(s *State, site ssa.Instruction, a []Val) []Val {
		s.used("unicode.IsSpace table")
		s.c.declare("isSpace", "(define-fun isSpace ((r Int)) Bool (or (and (<= 9 r) (<= r 13)) (= r 32) (= r 133) (= r 160) (= r 5760) (and (<= 8192 r) (<= r 8202)) (= r 8232) (= r 8233) (= r 8239) (= r 8287) (= r 12288)))")
		return []Val{{T: boolT, S: s.define("issp", sBool, app("isSpace", a[0].S))}}
	}
	L["math.Trunc"] = func(s *State, site ssa.Instruction, a []Val) []Val {
		return []Val{{T: a[0].T, S: s.define("trunc", sF64, app("fp.roundToIntegral", "RTZ", a[0].S))}}
	}
	L["strings.NewReader"] = func(s *State, site ssa.Instruction, a []Val) []Val {
		r := s.newRef()
		s.c.declare("readerOf", "(declare-fun readerOf (Int) Str)")
		s.assume(eq(app("readerOf", r), a[0].S))
		var t = a[0].T
		if c, ok := site.(ssa.CallInstruction); ok {
			t = c.Common().Signature().Results().At(0).Type()
		}
		return []Val{{T: t, S: r}}
	}
}

var strSliceT = types.NewSlice(strT)
var uint64T = types.Typ[types.Uint64]

// proveNow decides a side lemma synchronously while VCs are generated (used by higher-order library contracts).
func (s *State) proveNow(goal string) bool {
	script := s.script(not(goal))
	f, err := os.CreateTemp("", "govc-lemma-*.smt2")
	if err != nil {
		return false
	}
	f.WriteString(script)
	f.Close()
	defer os.Remove(f.Name())
	r := runSolver(context.Background(), solvers[0], f.Name(), 3000)
	if r.status == "unknown" {
		r = runSolver(context.Background(), solvers[2], f.Name(), 3000)
	}
	return r.status == "unsat"
}

func init() {
	extraLib = append(extraLib, func(e *Engine) {
		// strings.Map(f, s): higher-order contract instantiated with the argument closure's own body.
		// The closure is executed on a fresh rune that is constrained only by what is known about the runes
		// of s; per-rune lemmas proved about its result become facts about the mapped string.
		e.lib["strings.Map"] = func(s *State, site ssa.Instruction, a []Val) []Val {
			r := s.freshStr("mapped")
			clo := a[0].Clo
			if clo == nil || clo.Fn.Blocks == nil {
				return []Val{r}
			}
			s.used("strings.Map(f, s): f is applied to each rune of s in order; negative results are dropped (per-rune lemmas proved on f's real body)")
			src := a[1].S
			s.strBasics(src)
			s.c.declare("isControl", "(define-fun isControl ((r Int)) Bool (or (and (<= 0 r) (<= r 31)) (and (<= 127 r) (<= r 159))))")
			side := s.clone()
			rn := side.freshVal(types.Typ[types.Rune], "rune")
			x := rn.S
			side.assume(and(app("<=", "0", x), app("<=", x, "1114111")))
			side.assume(implies(app("digits", src), and(app("<=", "48", x), app("<=", x, "57"))))
			side.assume(implies(app("clean", src), or(eq(x, "10"), not(app("isControl", x)))))
			side.assume(implies(app("noNL", src), not(eq(x, "10"))))
			type lem struct {
				name string
				goal func(y string) string
			}
			lemmas := []lem{
				{"clean", func(y string) string { return or(app("<", y, "0"), eq(y, "10"), not(app("isControl", y))) }},
				{"nlkeep", func(y string) string { return eq(eq(x, "10"), eq(y, "10")) }},
				{"keepall", func(y string) string { return app(">=", y, "0") }},
			}
			holds := map[string]bool{"clean": true, "nlkeep": true, "keepall": true}
			paths := 0
			side.inline(clo.Fn, []Val{rn}, clo.Bindings, func(st *State, res []Val) {
				paths++
				if len(res) != 1 {
					for k := range holds {
						holds[k] = false
					}
					return
				}
				for _, l := range lemmas {
					if holds[l.name] && !st.proveNow(l.goal(res[0].S)) {
						holds[l.name] = false
					}
				}
			})
			if paths == 0 {
				return []Val{r}
			}
			n := s.c.ordinal(site, "lemma:strings.Map")
			record := func(name string) {
				o := &Obligation{Name: fmt.Sprintf("%s/lemma:strings.Map-%s#%d", s.c.name, name, n), Func: s.c.name, Kind: "lemma", Desc: "per-rune property of the closure passed to strings.Map, proved on its body", Expect: "unsat", Status: "unsat", Solver: "z3-new(sync)", Pos: s.c.eng.posOf(site)}
				s.c.obls = append(s.c.obls, o)
			}
			if holds["clean"] {
				record("clean")
				s.assume(app("clean", r.S))
			}
			if holds["nlkeep"] {
				record("nlkeep")
				s.assume(eq(app("nl", r.S), app("nl", src)))
			}
			if holds["keepall"] && holds["nlkeep"] && holds["clean"] {
				record("keepall")
				s.assume(implies(app("clean", src), eq(app("vlen", r.S), app("vlen", src))))
			}
			return []Val{r}
		}
	})
}
