package main

func registerStrings(e *Engine) {}
