#!/usr/bin/env python3
"""Regenerates the status table of DESIGN.md section 14.1 from /verif/evidence/*.json."""
import json, glob
rows = []
for f in sorted(glob.glob('/verif/evidence/C*.json')):
    e = json.load(open(f)); c = e['coverage']
    rows.append(f"| {e['property_id']} | {c['obligations']} | {c['path_instances']} | {len(c['functions_under_contract'])} | {round(e['wall_s'])} |")
s = open('/verif/DESIGN.md').read()
hdr = '| id | obligations (distinct) | path instances | functions under contract | wall s |\n|---|---|---|---|---|\n'
i = s.index(hdr) + len(hdr)
j = s.index('\n\n', i)
s = s[:i] + '\n'.join(rows) + s[j:]
open('/verif/DESIGN.md', 'w').write(s)
print(len(rows), 'rows')
