#!/usr/bin/env python3
"""Regenerates the table of seeded changes in DESIGN.md section 14.5 from /verif/seeded/*/meta.json."""
import json, glob, re
rows = []
for d in sorted(glob.glob('/verif/seeded/*/meta.json')):
    m = json.load(open(d))
    short = ' '.join(m['what'].strip().split())
    for sep in [' Change', ' =====', ' -----']:
        if sep in short:
            short = short.split(sep)[0]
    short = short.replace('|', '/').strip(' =-')[:150]
    rows.append(f"| {m['id']} | {short} | {', '.join(m['caught_by_obligations']).replace('|', '/')} |")
s = open('/verif/DESIGN.md').read()
hdr = '| id | seeded change | caught by |\n|---|---|---|\n'
i = s.index(hdr) + len(hdr)
j = s.index('\n\n', i)
s = s[:i] + '\n'.join(rows) + s[j:]
s = re.sub(r'All \d+ are caught', f'All {len(rows)} are caught', s)
s = re.sub(r'`/verif/seeded/` \(\d+ confirmed', f'`/verif/seeded/` ({len(rows)} confirmed', s)
open('/verif/DESIGN.md', 'w').write(s)
print(len(rows), 'rows')
