#!/bin/bash
# Regression over the seeded corpus: applies every /verif/seeded/<id>/patch.diff to /repo, runs the check of its
# property, reverts, and reports the ones that are NOT reported any more, and for the caught ones whether a failing
# input was replayed on the real code. Usage: tools/replay_seeded.sh [id-prefix]
# The evidence files are put back afterwards (committed evidence comes from clean runs only).
cd /verif
if [ -n "$(git -C /repo status --porcelain)" ]; then echo "/repo not clean"; exit 2; fi
sav=$(mktemp -d); cp -a /verif/evidence/. "$sav"/
miss=0
for d in seeded/${1}*/; do
  id=$(basename $d); prop=$(python3 -c "import json;print(json.load(open('$d/meta.json'))['property'])")
  extra=""
  case $id in C12-B-C12b) extra="C07";; esac
  if ! git -C /repo apply /verif/$d/patch.diff 2>/dev/null; then echo "$id: patch no longer applies"; continue; fi
  hit=0; inp=0
  for p in $prop $extra; do
    o=$(./check $p 2>&1 | grep "^VIOLATION")
    [ -n "$o" ] && hit=1
    echo "$o" | grep -v "no-failing-input-found" | grep -q "^VIOLATION" && inp=1
  done
  git -C /repo checkout -- . ; git -C /repo clean -fdq
  if [ $hit = 1 ]; then if [ $inp = 1 ]; then echo "$id: caught (failing input replayed)"; else echo "$id: caught (no input)"; fi; else echo "$id: NOT CAUGHT"; miss=1; fi
done
cp -a "$sav"/. /verif/evidence/; rm -rf "$sav"
exit $miss
