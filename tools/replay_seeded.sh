#!/bin/bash
# Regression over the seeded corpus: applies every /verif/seeded/<id>/patch.diff to /repo, runs the check of its
# property, reverts, and reports the ones that are NOT reported any more. Usage: tools/replay_seeded.sh [id-prefix]
cd /verif
if [ -n "$(git -C /repo status --porcelain)" ]; then echo "/repo not clean"; exit 2; fi
miss=0
for d in seeded/${1}*/; do
  id=$(basename $d); prop=$(python3 -c "import json;print(json.load(open('$d/meta.json'))['property'])")
  extra=""
  case $id in C12-B-C12b) extra="C07";; esac
  if ! git -C /repo apply /verif/$d/patch.diff 2>/dev/null; then echo "$id: patch no longer applies"; continue; fi
  hit=0
  for p in $prop $extra; do ./check $p 2>&1 | grep -q "^VIOLATION" && hit=1; done
  git -C /repo checkout -- .
  if [ $hit = 1 ]; then echo "$id: caught"; else echo "$id: NOT CAUGHT"; miss=1; fi
done
exit $miss
