#!/usr/bin/env python3
"""keep_mutant.py <worktree> <A|B> <property> <caught:yes|no> <obligations...>: archive a confirmed seeded change under /verif/seeded/"""
import sys, os, shutil, json, subprocess
wt, m, prop, caught = sys.argv[1:5]
obls = sys.argv[5:]
src = f"{wt}/out/{m}"
sid = f"{prop}-{m}-{os.path.basename(wt)[3:]}" if not os.path.basename(wt).endswith(prop) else f"{prop}-{m}"
dst = f"/verif/seeded/{sid}"
os.makedirs(dst, exist_ok=True)
shutil.copy(f"{src}/patch.diff", f"{dst}/patch.diff")
shutil.copy(f"{src}/demo_test.go", f"{dst}/demo_test.go.txt")
demo_path = open(f"{src}/demo_path.txt").read().strip()
notes = open(f"{src}/notes.txt").read() if os.path.exists(f"{src}/notes.txt") else ""
meta = {
 "id": sid, "property": prop,
 "demo_path": demo_path,
 "what": notes[:1500],
 "confirmed_by_me": "tools/confirm_mutant.sh: demo passes on the unchanged tree; with the patch the tree builds, the 42 existing tests still pass (jtp network tests aside) and the demo fails",
 "check_run": f"tools/try_mutant.sh seeded/{sid}/patch.diff {prop}  (git -C /repo apply; ./check {prop}; git -C /repo checkout -- .)",
 "caught": caught == "yes",
 "caught_by_obligations": obls,
}
json.dump(meta, open(f"{dst}/meta.json", "w"), indent=1)
print("kept", dst)
