#!/bin/bash
# Regression over the behaviour-preserving edits in /verif/harmless/<id>/patch.diff: each is applied to /repo, every
# check that covers a touched package is run, the patch is reverted. Any VIOLATION line is a false alarm.
# Usage: tools/replay_harmless.sh [id-prefix]
cd /verif
bad=0
for d in harmless/${1}*/; do
  id=$(basename $d)
  out=$(tools/try_harmless.sh $d/patch.diff 2>&1)
  if echo "$out" | grep -q "^VIOLATION\|does not apply\|not clean"; then echo "$id: FALSE ALARM"; echo "$out" | grep "VIOLATION\|apply\|clean" | cut -c1-200 | head -5; bad=1; else echo "$id: quiet ($(echo "$out" | grep '^checks:' | cut -c9-))"; fi
done
exit $bad
