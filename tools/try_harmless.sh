#!/bin/bash
# usage: try_harmless.sh <patch.diff> ; applies a behaviour-preserving patch and runs every check that covers a touched package.
# Any VIOLATION line is a false alarm.
p=$(readlink -f "$1")
ids=$(python3 /verif/tools/props_for_patch.py "$p")
echo "checks: $ids"
/verif/tools/try_mutant.sh "$p" $ids
