#!/usr/bin/env python3
"""Regenerates /verif/MANIFEST.json from specs/manifest_src.json (claims) and properties.jsonl."""
import json, subprocess, os
V = '/verif'
props = [json.loads(l) for l in open(f'{V}/properties.jsonl')]
src = json.load(open(f'{V}/specs/manifest_src.json'))
hooks = subprocess.run(['git', '-C', '/repo', 'log', '--format=%H %s'], capture_output=True, text=True).stdout.splitlines()
hook_commits = [l.split()[0] for l in hooks if ' verif hook' in l or l.split(' ', 1)[1].startswith('verif hook')]
checks = []
na = []
for p in props:
    pid = p['id']
    c = src['claims'].get(pid)
    if not c:
        na.append({"property_id": pid, "reason": src['not_applicable'].get(pid, "engine layer for this property not built yet (see DESIGN.md sections 8 and 12)")})
        continue
    checks.append({
        "property_id": pid,
        "quick_cmd": f"./check {pid} --tier quick",
        "thorough_cmd": f"./check {pid} --tier thorough",
        "evidence_file": f"/verif/evidence/{pid}.json",
        "replay_cmd_template": f"./check {pid} --replay {{path}}",
        "engine": "govc",
        "level_claimed": {"category": "proof", "text": c['text'], "design_ref": c.get('design_ref', 'DESIGN.md section 7')},
        "level_note": c['note'],
        "technique": c.get('technique', "contract-based deductive verification: weakest-precondition style VCs generated from go/ssa of the real functions against //@ contracts, discharged by z3/cvc5"),
    })
m = {
    "version": 1,
    "setup_cmd": "cd /verif/govc && GOFLAGS=-mod=mod GOPROXY=off GOSUMDB=off GOTOOLCHAIN=local go build -o /verif/bin/govc ./cmd/govc",
    "hooks": {"guard": "verif", "enable": "-tags=verif (comment-only contract files <pkg>/zz_contracts_verif.go)", "baseline_off_cmd": "cd /repo && go test -json -vet=off -count=1 ./...", "source_commits": hook_commits, "add_only": True},
    "engines": [{"name": "govc", "path": "/verif/govc", "serves_properties": [c['property_id'] for c in checks], "kind_free_text": "self-written contract verifier for Go: symbolic execution of go/ssa bodies against //@ contracts (requires/ensures/assigns/loop invariants), one SMT-LIB obligation per clause and safety condition, discharged by z3 4.8.12 / z3 5.1.0 / cvc5 1.0.3"}],
    "checks": checks,
    "notes": src.get('notes', ''),
    "not_applicable": na,
}
json.dump(m, open(f'{V}/MANIFEST.json', 'w'), indent=1)
print(len(checks), 'checks,', len(na), 'not applicable')
