#!/bin/bash
# usage: try_mutant.sh <patch.diff> <property-id>... ; applies the patch to /repo, runs the checks, reverts.
# The evidence files (rewritten by every check run) are put back afterwards: committed evidence comes from clean runs only.
p=$(readlink -f "$1"); shift
cd /repo || exit 2
if [ -n "$(git status --porcelain)" ]; then echo "/repo not clean"; exit 2; fi
git apply "$p" || { echo "patch does not apply to /repo"; exit 1; }
sav=$(mktemp -d); cp -a /verif/evidence/. "$sav"/
for id in "$@"; do (cd /verif && ./check $id 2>&1 | grep -E 'VIOLATION|KNOWN|violations;' | cut -c1-260); done
git checkout -- . ; git clean -fdq
cp -a "$sav"/. /verif/evidence/; rm -rf "$sav"
