#!/bin/bash
# usage: confirm_mutant.sh <worktree> <mutant-dir> ; confirms: builds, existing tests pass, demo fails with patch, passes without
set -u
export GOFLAGS=-mod=mod GOPROXY=off GOSUMDB=off GOTOOLCHAIN=local
wt=$1; m=$2
cd $wt || exit 2
git checkout -q -- . ; git clean -fdq -e out
demo=$(cat $m/demo_path.txt | tr -d '[:space:]')
res=""
cp $m/demo_test.go $demo
pkg=./$(dirname $demo)
go test -vet=off -count=1 $pkg > /tmp/cm_base.txt 2>&1
if grep -E -- '--- FAIL|panic:|\[build failed\]|\[setup failed\]' /tmp/cm_base.txt | grep -vqE 'TestBasic|TestRedirect'; then res="$res DEMO-FAILS-ON-ORIGINAL"; else res="$res demo-passes-on-original"; fi
rm -f $demo
if ! git apply $m/patch.diff; then echo "patch does not apply"; exit 1; fi
if go build ./... > /tmp/cm_build.txt 2>&1; then res="$res builds"; else res="$res BUILD-FAILS"; fi
go test -vet=off -count=1 ./... 2>&1 | grep -v "no test files" | grep -v '^ok' | grep -v 'servitor/out' > /tmp/cm_tests.txt
if grep -q -- '--- FAIL' /tmp/cm_tests.txt && grep -- '--- FAIL' /tmp/cm_tests.txt | grep -vq 'TestBasic\|TestRedirect'; then res="$res EXISTING-TESTS-FAIL"; else res="$res existing-tests-pass"; fi
cp $m/demo_test.go $demo
go test -vet=off -count=1 $pkg > /tmp/cm_mut.txt 2>&1
if grep -E -- '--- FAIL|panic:' /tmp/cm_mut.txt | grep -vqE 'TestBasic|TestRedirect'; then res="$res demo-fails-with-patch"; else res="$res DEMO-PASSES-WITH-PATCH"; fi
rm -f $demo
git checkout -q -- . ; git clean -fdq -e out
echo "$res"
