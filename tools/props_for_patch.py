#!/usr/bin/env python3
"""props_for_patch.py <patch.diff>: the property ids whose checks cover a package the patch touches"""
import sys, json, re
pk = set(re.findall(r'^\+\+\+ b/([^/\n]+)/', open(sys.argv[1]).read(), re.M))
p = json.load(open('/verif/specs/props.json'))
ids = [k for k, v in p.items() if isinstance(v, dict) and any(f.split('.')[0] in pk for f in v.get('funcs', []))]
print(' '.join(sorted(ids)))
