#!/bin/bash
# Re-runs every claimed check on the clean tree (so that the committed evidence comes from clean runs) and
# refreshes the ledger first. Usage: tools/refresh_all.sh [--no-ledger]
cd /verif
if [ -n "$(git -C /repo status --porcelain)" ]; then echo "/repo not clean"; exit 2; fi
python3 tools/mkmanifest.py >/dev/null
ids=$(python3 -c "import json;print(' '.join(c['property_id'] for c in json.load(open('MANIFEST.json'))['checks']))")
fail=0
run() { id=$1; if [ "$2" != "--no-ledger" ]; then ./check $id --write-ledger > /dev/null 2>&1; fi; out=$(./check $id 2>&1); rc=$?; echo "$out" | grep -E "VIOLATION|violations;" | cut -c1-200 | tail -2; return $rc; }
for id in $ids; do run $id $1 || fail=1; done
python3-vt - <<'PY'
import json,jsonschema,glob
sch=json.load(open('/root/.vp/EVIDENCE.schema.json'))
for c in json.load(open('/verif/MANIFEST.json'))['checks']:
    e=json.load(open(c['evidence_file'])); jsonschema.validate(e,sch)
    cov=e['coverage']
    assert cov['obligations']==cov['discharged'], (c['property_id'],cov['obligations'],cov['discharged'])
jsonschema.validate(json.load(open('/verif/MANIFEST.json')),json.load(open('/root/.vp/MANIFEST.schema.json')))
print('evidence + manifest valid')
PY
[ $? -eq 0 ] || fail=1
exit $fail
